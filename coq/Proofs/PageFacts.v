From Zorg Require Import Base.PyStr Base.Sexp Base.Res Base.Dates Gen.Params Proofs.PyStrFacts Model.Zid Model.FileListener
  Proofs.FileListenerFacts.
From RecordUpdate Require Import RecordUpdate.
From Zorg Require Import Model.PageSyntax.
From Coq Require Import Lia Sorted.
#[local] Arguments upd : simpl never.

Section Walk.
  Variable today : date.
  Notation walk := (walk today false).
  Notation enter := FileListener.enter.
  Notation exit_ := (exit_ today false).

  Fixpoint walk_list (ks : list tree) (s : state) (a : acc) : res (state * acc) :=
    match ks with
    | [] => Ok (s, a)
    | k :: ks' => y <- walk k s a ;; walk_list ks' (fst y) (snd y)
    end.

  Lemma walk_node r l kids st a :
    walk (Node r l kids) st a =
    (st1 <- enter r l kids st ;;
     x <- walk_list kids st1 a ;;
     z <- exit_ r l kids (fst x) ;;
     let '(st3, n, f) := z in Ok (st3, push (snd x) n f)).
  Proof.
    cbn [FileListener.walk]. destruct (enter r l kids st) as [st1| | |]; cbn [bind]; try reflexivity.
  Qed.

  Lemma walk_tok ty s st a : walk (Tok ty s) st a = Ok (st, a).
  Proof. reflexivity. Qed.

  Lemma push_none ns f : push (ns, f) None false = (ns, f).
  Proof. unfold push. cbn. now rewrite orb_false_r. Qed.

  (* a node whose rule the listener does not react to *)
  Lemma walk_inert r l kids st ns f :
    classify r = ROther ->
    walk (Node r l kids) st (ns, f) = walk_list kids st (ns, f).
  Proof.
    intros C. rewrite walk_node. unfold FileListener.enter, FileListener.exit_. rewrite C. cbn [bind].
    destruct (walk_list kids st (ns, f)) as [[s' [ns' f']]| | |]; cbn [bind fst snd]; try reflexivity.
    now rewrite push_none.
  Qed.

  (* ---------------- words inside an item, after its identity has been read ---------------- *)
  Definition bump (st : state) : state := st <| s_ids := Datatypes.S (s_ids st) |>.
  Definition wfx (w : word) (st : state) : state :=
    match w with
    | WId _ | WDate _ | WZid _ => bump st
    | WTag k s => bump (add_tag (tag_name k) s st)
    | WLink s => bump (add_tag "links" s st)
    | WProp k v => bump (bump (add_prop k v st))
    end.
  Definition past_identity (st : state) : Prop :=
    s_in_note st = true /\ (1 <= s_ids st)%nat /\ (s_modify st = None \/ (2 <= s_ids st)%nat).
  Definition body_mode (st : state) : Prop :=
    s_first_comment st = false /\ s_in_hdr st = [false; false; false; false] /\ s_in_quoted st = false.

  Lemma enter_id_past txt st : past_identity st -> enter_id txt st = Ok (bump st).
  Proof.
    intros (Hn & Hi & Hm). unfold enter_id. rewrite Hn.
    destruct (s_ids st) as [|[|k]] eqn:E.
    - inversion Hi.
    - destruct Hm as [Hm|Hm]; [|exfalso; inversion Hm; match goal with H : (_ <= 0)%nat |- _ => inversion H end].
      cbn. rewrite Hm. cbn. unfold bump. now rewrite E.
    - cbn. unfold bump. now rewrite E.
  Qed.

  Lemma enter_date_past kids tk0 st :
    child_tok "DATE" kids = Some tk0 -> body_mode st -> (2 <= s_ids st)%nat -> enter_date kids st = Ok st.
  Proof.
    intros Hk (Hc & Hh & _) Hi. unfold enter_date. rewrite Hk, Hh, Hc.
    destruct (s_ids st) as [|[|k]]; [inversion Hi|inversion Hi; match goal with H : (_ <= 0)%nat |- _ => inversion H end|].
    cbn. now rewrite andb_false_r.
  Qed.

  Ltac cls := repeat match goal with
                     | |- context [classify (S ?x)] =>
                         let c := eval vm_compute in (classify (S x)) in change (classify (S x)) with c
                     end.
  Ltac inert := rewrite walk_inert by (vm_compute; reflexivity); cbn [walk_list].
  Ltac tokstep := rewrite walk_tok; cbn [bind fst snd].

  Lemma past_bump st : past_identity st -> past_identity (bump st).
  Proof. intros (Hn & Hi & Hm). unfold past_identity, bump. cbn. split; [exact Hn|]. split; [apply le_S; exact Hi|]. right. apply le_n_S. exact Hi. Qed.
  Lemma body_bump st : body_mode st -> body_mode (bump st).
  Proof. intros H. exact H. Qed.
  Lemma past_add_tag n v st : past_identity st -> past_identity (add_tag n v st).
  Proof. intros H. unfold add_tag. destruct (forallb is_digit v); [exact H|]. destruct (tag_scope st); exact H. Qed.
  Lemma body_add_tag n v st : body_mode st -> body_mode (add_tag n v st).
  Proof. intros H. unfold add_tag. destruct (forallb is_digit v); [exact H|]. destruct (tag_scope st); exact H. Qed.
  Lemma past_add_prop k v st : past_identity st -> past_identity (add_prop k v st).
  Proof. intros H. unfold add_prop. destruct (s_in_quoted st); [exact H|]. destruct (prop_scope st); exact H. Qed.
  Lemma body_add_prop k v st : body_mode st -> body_mode (add_prop k v st).
  Proof. intros H. unfold add_prop. destruct (s_in_quoted st); [exact H|]. destruct (prop_scope st); exact H. Qed.
  Lemma bump_ids2 st : past_identity st -> (2 <= s_ids (bump st))%nat.
  Proof. intros (_ & Hi & _). unfold bump. cbn. apply le_n_S. exact Hi. Qed.

  Lemma walk_id_tok l ty s st ns f :
    past_identity st ->
    walk (t_id l (Tok ty s)) st (ns, f) = Ok (bump st, (ns, f)).
  Proof.
    intros Hp. unfold t_id, nd. rewrite walk_node. unfold FileListener.enter, FileListener.exit_. cls.
    rewrite enter_id_past by exact Hp. cbn [bind walk_list]. inert. tokstep. cbn [bind fst snd].
    now rewrite push_none.
  Qed.

  Lemma walk_id_date l s st ns f :
    past_identity st -> body_mode st ->
    walk (t_id l (nd "date" l [tk "DATE" s])) st (ns, f) = Ok (bump st, (ns, f)).
  Proof.
    intros Hp Hb. unfold t_id, nd, tk. rewrite walk_node. unfold FileListener.enter at 1, FileListener.exit_ at 1. cls.
    rewrite enter_id_past by exact Hp. cbn [bind walk_list]. inert.
    rewrite walk_node. unfold FileListener.enter, FileListener.exit_. cls.
    erewrite enter_date_past; [|reflexivity|apply body_bump; exact Hb|apply bump_ids2; exact Hp].
    cbn [bind walk_list]. tokstep. rewrite push_none. cbn [bind fst snd]. now rewrite push_none.
  Qed.

  Lemma walk_id_zid l s st ns f :
    past_identity st ->
    walk (t_id l (nd "zid" l [tk "ZID" s])) st (ns, f) = Ok (bump st, (ns, f)).
  Proof.
    intros Hp. unfold t_id, nd, tk. rewrite walk_node. unfold FileListener.enter, FileListener.exit_. cls.
    rewrite enter_id_past by exact Hp. cbn [bind walk_list]. inert. inert. tokstep. cbn [bind fst snd].
    now rewrite push_none.
  Qed.

  Lemma text_id l ty s : text_of (t_id l (Tok ty s)) = s.
  Proof. cbn. now rewrite !app_nil_r. Qed.

  Lemma walk_uw l inner st ns f s' a' :
    walk inner st (ns, f) = Ok (s', a') ->
    walk (t_uw l inner) st (ns, f) = Ok (s', a').
  Proof.
    intros H. unfold t_uw, nd, tks. inert. tokstep. inert. inert. inert. inert. rewrite H. reflexivity.
  Qed.

  Lemma walk_word l w st ns f :
    past_identity st -> body_mode st ->
    walk (tree_of_word l w) st (ns, f) = Ok (wfx w st, (ns, f)).
  Proof.
    intros Hp Hb. destruct w as [s|k s|s|k v|s|z]; cbn [tree_of_word wfx]; apply walk_uw.
    - unfold nd, tk. inert. rewrite walk_id_tok by exact Hp. reflexivity.
    - unfold nd at 1. inert.
      destruct k; cbn [tag_rule tag_tok tag_name]; unfold nd, tk, tks; rewrite walk_node;
        unfold FileListener.enter, FileListener.exit_; cls; unfold tag1, child1_text;
        rewrite text_id; cbn [bind walk_list app]; tokstep;
        (rewrite walk_id_tok by (apply past_add_tag; exact Hp)); cbn [bind fst snd]; now rewrite push_none.
    - unfold nd, tk, tks. rewrite walk_node. unfold FileListener.enter, FileListener.exit_. cls.
      unfold tag1, child1_text.
      replace (text_of (Node (S "id_group") l [t_id l (Tok (S "ID") s)])) with s by (cbn; now rewrite !app_nil_r).
      cbn [bind walk_list app]. tokstep. inert.
      rewrite walk_id_tok by (apply past_add_tag; exact Hp). cbn [bind fst snd]. tokstep. now rewrite push_none.
    - unfold nd at 1. inert. unfold nd, tk, tks. rewrite walk_node. unfold FileListener.enter, FileListener.exit_. cls.
      replace (child_rule "id" [t_id l (Tok (S "ID") k); Tok (S "COLON") (S ":"); Tok (S "COLON") (S ":");
                               Node (S "simple_prop_value") l [t_id l (Tok (S "ID") v)]])
        with (Some (t_id l (Tok (S "ID") k))) by reflexivity.
      replace (child_rule "simple_prop_value" [t_id l (Tok (S "ID") k); Tok (S "COLON") (S ":"); Tok (S "COLON") (S ":");
                               Node (S "simple_prop_value") l [t_id l (Tok (S "ID") v)]])
        with (Some (Node (S "simple_prop_value") l [t_id l (Tok (S "ID") v)])) by reflexivity.
      rewrite text_id.
      replace (text_of (Node (S "simple_prop_value") l [t_id l (Tok (S "ID") v)])) with v by (cbn; now rewrite !app_nil_r).
      cbn [bind walk_list].
      rewrite walk_id_tok by (apply past_add_prop; exact Hp). cbn [bind fst snd]. tokstep. tokstep. inert.
      rewrite walk_id_tok by (apply past_bump, past_add_prop; exact Hp). cbn [bind fst snd]. now rewrite push_none.
    - unfold nd at 1. inert. rewrite walk_id_date by assumption. reflexivity.
    - unfold nd at 1. inert. rewrite walk_id_zid by assumption. reflexivity.
  Qed.

  Lemma past_wfx w st : past_identity st -> past_identity (wfx w st).
  Proof.
    intros H. destruct w; cbn [wfx]; repeat first [simple apply past_bump | simple apply past_add_tag | simple apply past_add_prop]; exact H.
  Qed.
  Lemma body_wfx w st : body_mode st -> body_mode (wfx w st).
  Proof.
    intros H. destruct w; cbn [wfx]; repeat first [simple apply body_bump | simple apply body_add_tag | simple apply body_add_prop]; exact H.
  Qed.

  Definition wsfx (ws : list word) (st : state) : state := fold_left (fun s w => wfx w s) ws st.

  Lemma walk_words l ws : forall st ns f,
    past_identity st -> body_mode st ->
    walk_list (map (tree_of_word l) ws) st (ns, f) = Ok (wsfx ws st, (ns, f)).
  Proof.
    induction ws as [|w ws IH]; intros st ns f Hp Hb; [reflexivity|].
    cbn [map walk_list]. rewrite walk_word by assumption. cbn [bind fst snd].
    apply IH; [apply past_wfx|apply body_wfx]; assumption.
  Qed.
  Lemma past_wsfx ws : forall st, past_identity st -> past_identity (wsfx ws st).
  Proof. induction ws as [|w ws IH]; intros st H; [exact H|]. apply IH, past_wfx, H. Qed.
  Lemma body_wsfx ws : forall st, body_mode st -> body_mode (wsfx ws st).
  Proof. induction ws as [|w ws IH]; intros st H; [exact H|]. apply IH, body_wfx, H. Qed.

  (* ---------------- the identity position ---------------- *)
  Definition fresh_note (st : state) : Prop :=
    s_in_note st = true /\ s_ids st = 0%nat /\ s_modify st = None /\ s_zid st = None /\ getn 5 (s_dates st) None = None.

  Definition valid_ident (i : ident) : Prop :=
    match i with
    | IPlain s => is_short_date_spec s = false /\ is_zid s = false
    | IZid z => is_short_date_spec z = false /\ is_zid z = true /\ exists d, from_short (zid_day z) = Ok d
    | IModZid m z => is_short_date_spec m = true /\ (exists d, from_short m = Ok d) /\
                     is_zid z = true /\ exists d, from_short (zid_day z) = Ok d
    | ILong d => is_short_date_spec d = false /\ is_zid d = false /\ exists dd, from_long d = Ok dd
    | IMod m => is_short_date_spec m = true /\ exists d, from_short m = Ok d
    end.

  Notation date_of_short := (date_of_short today).
  Notation date_of_long := (date_of_long today).

  Definition ident_fx (i : ident) (st : state) : state :=
    match i with
    | IPlain _ => bump st
    | IZid z => st <| s_ids := 1%nat |> <| s_zid := Some z |>
                   <| s_dates := upd 5 (fun _ => Some (date_of_short (zid_day z))) (s_dates st) |>
    | IModZid m z => st <| s_ids := 2%nat |> <| s_modify := Some (date_of_short m) |> <| s_zid := Some z |>
                        <| s_dates := upd 5 (fun _ => Some (date_of_short (zid_day z))) (s_dates st) |>
    | ILong d => st <| s_ids := 1%nat |> <| s_dates := upd 5 (fun _ => Some (date_of_long d)) (s_dates st) |>
    | IMod m => st <| s_ids := 1%nat |> <| s_modify := Some (date_of_short m) |>
    end.

  (* after a modify date that stands alone: the next word is the last that could still name the note's ZID *)
  Definition mod_identity (st : state) : Prop :=
    s_in_note st = true /\ s_ids st = 1%nat /\ s_modify st <> None.
  Definition ready (st : state) (ws : list word) : Prop :=
    past_identity st \/ (mod_identity st /\ match ws with [] => True | w :: _ => word_not_zidb w = true end).
  Definition after_mod_ok (i : ident) (ws : list word) : Prop := after_mod_okb i ws = true.

  Lemma enter_id_mod txt st : mod_identity st -> is_zid txt = false -> enter_id txt st = Ok (bump st).
  Proof.
    intros (Hn & Hi & Hm) Hz. unfold enter_id. rewrite Hn, Hi. cbn. rewrite Hz, andb_false_r. unfold bump. now rewrite Hi.
  Qed.
  Lemma past_after_mod st : mod_identity st -> past_identity (bump st).
  Proof. intros (Hn & Hi & Hm). unfold past_identity, bump. cbn. rewrite Hi. auto. Qed.
  Lemma mod_add_tag n v st : mod_identity st -> mod_identity (add_tag n v st).
  Proof. intros H. unfold add_tag. destruct (forallb is_digit v); [exact H|]. destruct (tag_scope st); exact H. Qed.
  Lemma mod_add_prop k v st : mod_identity st -> mod_identity (add_prop k v st).
  Proof. intros H. unfold add_prop. destruct (s_in_quoted st); [exact H|]. destruct (prop_scope st); exact H. Qed.

  Lemma walk_id_tok_mod l ty s st ns f :
    mod_identity st -> is_zid s = false ->
    walk (t_id l (Tok ty s)) st (ns, f) = Ok (bump st, (ns, f)).
  Proof.
    intros Hp Hz. pose proof (text_id l ty s) as E. unfold t_id, nd in *.
    rewrite walk_node. unfold FileListener.enter, FileListener.exit_. cls.
    rewrite E. rewrite enter_id_mod by assumption. cbn [bind walk_list]. inert. tokstep. cbn [bind fst snd].
    now rewrite push_none.
  Qed.

  Lemma walk_id_date_mod l s st ns f :
    mod_identity st -> body_mode st -> is_zid s = false ->
    walk (t_id l (nd "date" l [tk "DATE" s])) st (ns, f) = Ok (bump st, (ns, f)).
  Proof.
    intros Hp Hb Hz.
    assert (E : text_of (t_id l (nd "date" l [tk "DATE" s])) = s) by (cbn; now rewrite !app_nil_r).
    unfold t_id, nd, tk in *. rewrite walk_node. unfold FileListener.enter at 1, FileListener.exit_ at 1. cls.
    rewrite E. rewrite enter_id_mod by assumption. cbn [bind walk_list]. inert.
    rewrite walk_node. unfold FileListener.enter, FileListener.exit_. cls.
    erewrite enter_date_past; [|reflexivity|apply body_bump; exact Hb|].
    2:{ destruct Hp as (Hn & Hi & Hm). unfold bump. cbn. rewrite Hi. apply le_n. }
    cbn [bind walk_list]. tokstep. rewrite push_none. cbn [bind fst snd]. now rewrite push_none.
  Qed.

  Lemma walk_word_mod l w st ns f :
    mod_identity st -> body_mode st -> word_not_zidb w = true ->
    walk (tree_of_word l w) st (ns, f) = Ok (wfx w st, (ns, f)).
  Proof.
    intros Hm Hb Hz. destruct w as [s|k s|s|k v|s|z]; cbn [word_not_zidb] in Hz; try apply negb_true_iff in Hz;
      [| | | | |discriminate]; cbn [tree_of_word wfx]; apply walk_uw.
    - unfold nd, tk. inert. rewrite walk_id_tok_mod by assumption. reflexivity.
    - unfold nd at 1. inert.
      destruct k; cbn [tag_rule tag_tok tag_name]; unfold nd, tk, tks; rewrite walk_node;
        unfold FileListener.enter, FileListener.exit_; cls; unfold tag1, child1_text;
        rewrite text_id; cbn [bind walk_list app]; tokstep;
        (rewrite walk_id_tok_mod by (try apply mod_add_tag; assumption)); cbn [bind fst snd]; now rewrite push_none.
    - unfold nd, tk, tks. rewrite walk_node. unfold FileListener.enter, FileListener.exit_. cls.
      unfold tag1, child1_text.
      replace (text_of (Node (S "id_group") l [t_id l (Tok (S "ID") s)])) with s by (cbn; now rewrite !app_nil_r).
      cbn [bind walk_list app]. tokstep. inert.
      rewrite walk_id_tok_mod by (try apply mod_add_tag; assumption). cbn [bind fst snd]. tokstep. now rewrite push_none.
    - unfold nd at 1. inert. unfold nd, tk, tks. rewrite walk_node. unfold FileListener.enter, FileListener.exit_. cls.
      replace (child_rule "id" [t_id l (Tok (S "ID") k); Tok (S "COLON") (S ":"); Tok (S "COLON") (S ":");
                               Node (S "simple_prop_value") l [t_id l (Tok (S "ID") v)]])
        with (Some (t_id l (Tok (S "ID") k))) by reflexivity.
      replace (child_rule "simple_prop_value" [t_id l (Tok (S "ID") k); Tok (S "COLON") (S ":"); Tok (S "COLON") (S ":");
                               Node (S "simple_prop_value") l [t_id l (Tok (S "ID") v)]])
        with (Some (Node (S "simple_prop_value") l [t_id l (Tok (S "ID") v)])) by reflexivity.
      rewrite text_id.
      replace (text_of (Node (S "simple_prop_value") l [t_id l (Tok (S "ID") v)])) with v by (cbn; now rewrite !app_nil_r).
      cbn [bind walk_list].
      rewrite walk_id_tok_mod by (try apply mod_add_prop; assumption). cbn [bind fst snd]. tokstep. tokstep. inert.
      rewrite walk_id_tok by (apply past_after_mod, mod_add_prop; exact Hm). cbn [bind fst snd]. now rewrite push_none.
    - unfold nd at 1. inert. rewrite walk_id_date_mod by assumption. reflexivity.
  Qed.

  Lemma past_wfx_mod w st : mod_identity st -> past_identity (wfx w st).
  Proof.
    intros H. destruct w; cbn [wfx]; try (apply past_after_mod; try apply mod_add_tag; try apply mod_add_prop; exact H).
    apply past_bump, past_after_mod, mod_add_prop, H.
  Qed.

  Lemma walk_words_ready l ws st ns f :
    ready st ws -> body_mode st ->
    walk_list (map (tree_of_word l) ws) st (ns, f) = Ok (wsfx ws st, (ns, f)).
  Proof.
    intros [Hp|(Hm & Hw)] Hb; [now apply walk_words|].
    destruct ws as [|w ws]; [reflexivity|].
    cbn [map walk_list]. rewrite walk_word_mod by assumption. cbn [bind fst snd].
    change (wsfx (w :: ws) st) with (wsfx ws (wfx w st)).
    apply walk_words; [apply past_wfx_mod; exact Hm|apply body_wfx; exact Hb].
  Qed.

  Lemma walk_id_node l inner st st1 r ns f :
    enter_id (text_of (t_id l inner)) st = Ok st1 ->
    walk inner st1 (ns, f) = Ok (r, (ns, f)) ->
    walk (t_id l inner) st (ns, f) = Ok (r, (ns, f)).
  Proof.
    intros He Hw. unfold t_id, nd in *. rewrite walk_node. unfold FileListener.enter, FileListener.exit_. cls.
    rewrite He. cbn [bind walk_list]. inert. rewrite Hw. cbn [bind fst snd]. now rewrite push_none.
  Qed.

  Lemma text_id_node l r ty s : text_of (t_id l (Node r l [Tok ty s])) = s.
  Proof. cbn. now rewrite !app_nil_r. Qed.

  Lemma walk_ident l i ws st ns f :
    fresh_note st -> body_mode st -> valid_ident i -> after_mod_ok i ws ->
    walk_list (map (tree_of_word l) (ident_words i)) st (ns, f) = Ok (ident_fx i st, (ns, f)) /\
    ready (ident_fx i st) ws /\ body_mode (ident_fx i st).
  Proof.
    intros (Hn & Hi & Hm & Hz & Hd) Hb V A. destruct i as [s|z|m z|d|m]; cbn [ident_words map walk_list tree_of_word ident_fx].
    - destruct V as (V1 & V2). split; [|split].
      + erewrite walk_uw; [cbn [bind fst snd]; reflexivity|]. unfold nd, tk. inert.
        erewrite walk_id_node; [reflexivity| |apply walk_tok].
        rewrite text_id. unfold enter_id. rewrite Hn, Hi, V1, V2. cbn. unfold bump. now rewrite Hi.
      + left. unfold past_identity, bump. cbn. rewrite Hi. auto.
      + exact Hb.
    - destruct V as (V1 & V2 & d & V3). split; [|split].
      + erewrite walk_uw; [cbn [bind fst snd]; reflexivity|]. unfold nd at 1. inert.
        erewrite walk_id_node; [reflexivity| |unfold nd, tk; inert; tokstep; reflexivity].
        unfold nd, tk. rewrite text_id_node. unfold enter_id. rewrite Hn, Hi, V1, V2. cbn.
        unfold PageSyntax.date_of_short. rewrite V3. unfold zid_day in V3. cbn in V3. rewrite V3. reflexivity.
      + left. unfold past_identity. cbn. auto.
      + exact Hb.
    - destruct V as (V1 & (dm & V2) & V3 & d & V4). split; [|split].
      + erewrite walk_uw; [|unfold nd, tk; inert;
          erewrite walk_id_node; [reflexivity| |apply walk_tok];
          rewrite text_id; unfold enter_id; rewrite Hn, Hi, V1; cbn; rewrite V2; reflexivity].
        cbn [bind fst snd].
        erewrite walk_uw; [cbn [bind fst snd]; reflexivity|]. unfold nd at 1. inert.
        erewrite walk_id_node; [reflexivity| |unfold nd, tk; inert; tokstep; reflexivity].
        unfold nd, tk. rewrite text_id_node. unfold enter_id. cbn. rewrite Hn. cbn. rewrite V3. cbn.
        unfold PageSyntax.date_of_short. rewrite V2, V4. unfold zid_day in V4. cbn in V4. rewrite V4. reflexivity.
      + left. unfold past_identity. cbn. auto.
      + exact Hb.
    - destruct V as (V1 & V2 & dd & V3). split; [|split].
      + erewrite walk_uw; [cbn [bind fst snd]; reflexivity|]. unfold nd at 1. inert.
        erewrite walk_id_node; [reflexivity| |].
        * unfold nd, tk. rewrite text_id_node. unfold enter_id. rewrite Hn, Hi, V1, V2. cbn. reflexivity.
        * unfold nd, tk. rewrite walk_node. unfold FileListener.enter, FileListener.exit_. cls.
          unfold enter_date. cbn [child_tok List.find is_tok]. 
          replace (eqb_str (S "DATE") (S "DATE")) with true by reflexivity.
          cbn [text_of]. cbn [s_in_note s_ids s_dates set get]. 
          unfold set_date. rewrite Hn, Hd. cbn [andb Nat.eqb is_none]. rewrite V3. cbn [bind walk_list].
          tokstep. rewrite push_none. unfold PageSyntax.date_of_long. rewrite V3. reflexivity.
      + left. unfold past_identity. cbn. auto.
      + exact Hb.
    - destruct V as (V1 & dm & V2). split; [|split].
      + erewrite walk_uw; [cbn [bind fst snd]; reflexivity|]. unfold nd, tk. inert.
        erewrite walk_id_node; [reflexivity| |apply walk_tok].
        rewrite text_id. unfold enter_id. rewrite Hn, Hi, V1. cbn. rewrite V2. cbn.
        unfold PageSyntax.date_of_short. rewrite V2. reflexivity.
      + right. split.
        * unfold mod_identity. cbn. repeat split; [exact Hn|discriminate].
        * unfold after_mod_ok, after_mod_okb in A. destruct ws; [exact I|exact A].
      + exact Hb.
  Qed.

  (* ---------------- canonical form of the state while an item is being read ---------------- *)
  Record nscope := mkX { x_zid : option str; x_ids : nat; x_t5 : list (str * str); x_p5 : list (str * str);
                         x_d5 : option date; x_mod : option date; x_in : bool; x_prio : str; x_status : str }.
  (* written with the constructor (not as a chain of record updates) so that projections of it reduce in one step *)
  Definition canon (st0 : state) (ot op : list (list (str * str))) (od : list (option date)) (x : nscope) : state :=
    mkState (x_zid x) (x_ids x) (s_block st0) (s_h st0) (s_first_comment st0) (s_in_hdr st0) (s_in_head st0) (x_in x)
            (s_in_quoted st0) (ot ++ [x_t5 x]) (op ++ [x_p5 x]) (od ++ [x_d5 x]) (x_mod x) (x_prio x) (x_status x)
            (s_counts st0) (s_h0 st0) (s_sections st0).

  Lemma upd_app_last {A} (f : A -> A) (a : list A) (x : A) n : length a = n -> upd n f (a ++ [x]) = a ++ [f x].
  Proof.
    revert n. induction a as [|y a IH]; intros n H; destruct n; try discriminate; [reflexivity|].
    change (y :: upd n f (a ++ [x]) = y :: a ++ [f x]). f_equal. apply IH. now inversion H.
  Qed.
  Lemma getn_app_last {A} (a : list A) (x d : A) n : length a = n -> getn n (a ++ [x]) d = x.
  Proof. intros H. unfold getn. rewrite app_nth2 by (rewrite H; apply le_n). rewrite H, Nat.sub_diag. reflexivity. Qed.

  Section Canon.
    Variable st0 : state.
    Variables ot op : list (list (str * str)).
    Variable od : list (option date).
    Hypothesis Hb : body_mode st0.
    Hypothesis Hhead : s_in_head st0 = false.
    Hypothesis Lt : length ot = 5%nat.
    Hypothesis Lp : length op = 5%nat.
    Hypothesis Ld : length od = 5%nat.
    Notation cn := (canon st0 ot op od).

    Lemma body_canon x : body_mode (cn x).
    Proof. exact Hb. Qed.

    Lemma tag_scope_canon x : x_in x = true -> tag_scope (cn x) = Some 5%nat.
    Proof. destruct Hb as (H1 & H2 & H3). intros Hi. unfold tag_scope. cbn. rewrite H1, H2, Hi. reflexivity. Qed.
    Lemma prop_scope_canon x : x_in x = true -> prop_scope (cn x) = Some 5%nat.
    Proof. destruct Hb as (H1 & H2 & H3). intros Hi. unfold prop_scope. cbn. rewrite Hhead, H2, Hi. reflexivity. Qed.

    Definition x_bump (x : nscope) : nscope :=
      mkX (x_zid x) (Datatypes.S (x_ids x)) (x_t5 x) (x_p5 x) (x_d5 x) (x_mod x) (x_in x) (x_prio x) (x_status x).
    Definition x_tag (nv : list (str * str)) (x : nscope) : nscope :=
      mkX (x_zid x) (x_ids x) (x_t5 x ++ nv) (x_p5 x) (x_d5 x) (x_mod x) (x_in x) (x_prio x) (x_status x).
    Definition x_prop (k v : str) (x : nscope) : nscope :=
      mkX (x_zid x) (x_ids x) (x_t5 x) (dict_set k v (x_p5 x)) (x_d5 x) (x_mod x) (x_in x) (x_prio x) (x_status x).

    Lemma bump_canon x : bump (cn x) = cn (x_bump x).
    Proof. reflexivity. Qed.

    Lemma add_tag_canon (n : string) v x :
      x_in x = true ->
      add_tag n v (cn x) = cn (x_tag (if forallb is_digit v then [] else [(S n, v)]) x).
    Proof.
      intros Hi. unfold add_tag. destruct (forallb is_digit v).
      - unfold x_tag. rewrite app_nil_r. destruct x; reflexivity.
      - rewrite tag_scope_canon by exact Hi. cbn [canon s_tags set get]. 
        unfold canon. cbn. rewrite upd_app_last by exact Lt. reflexivity.
    Qed.

    Lemma add_prop_canon k v x :
      x_in x = true -> add_prop k v (cn x) = cn (x_prop k v x).
    Proof.
      intros Hi. unfold add_prop. destruct Hb as (H1 & H2 & H3). 
      replace (s_in_quoted (cn x)) with (s_in_quoted st0) by reflexivity. rewrite H3.
      rewrite prop_scope_canon by exact Hi. unfold canon. cbn. rewrite upd_app_last by exact Lp. reflexivity.
    Qed.

    Definition wx (w : word) (x : nscope) : nscope :=
      match w with
      | WId _ | WDate _ | WZid _ => x_bump x
      | WTag _ _ | WLink _ => x_bump (x_tag (word_tags w) x)
      | WProp k v => x_bump (x_bump (x_prop k v x))
      end.
    Lemma wx_in w x : x_in (wx w x) = x_in x.
    Proof. destruct w; reflexivity. Qed.

    Lemma wfx_canon w x : x_in x = true -> wfx w (cn x) = cn (wx w x).
    Proof.
      intros Hi. destruct w as [s|k s|s|k v|s|z]; cbn [wfx wx]; try reflexivity.
      - rewrite add_tag_canon by exact Hi. destruct k; reflexivity.
      - rewrite add_tag_canon by exact Hi. reflexivity.
      - rewrite add_prop_canon by exact Hi. reflexivity.
    Qed.

    Definition wxs (ws : list word) (x : nscope) : nscope := fold_left (fun x w => wx w x) ws x.
    Lemma wsfx_canon ws : forall x, x_in x = true -> wsfx ws (cn x) = cn (wxs ws x).
    Proof.
      induction ws as [|w ws IH]; intros x Hi; [reflexivity|].
      cbn [wsfx wxs fold_left]. rewrite wfx_canon by exact Hi. apply IH. now rewrite wx_in.
    Qed.

    Lemma wxs_fields ws : forall x,
      x_zid (wxs ws x) = x_zid x /\ x_t5 (wxs ws x) = x_t5 x ++ words_tags ws /\
      x_p5 (wxs ws x) = words_props ws (x_p5 x) /\ x_d5 (wxs ws x) = x_d5 x /\ x_mod (wxs ws x) = x_mod x /\
      x_in (wxs ws x) = x_in x /\ x_prio (wxs ws x) = x_prio x /\ x_status (wxs ws x) = x_status x.
    Proof.
      induction ws as [|w ws IH]; intros x.
      - cbn. rewrite app_nil_r. repeat split.
      - cbn [wxs fold_left]. destruct (IH (wx w x)) as (H1 & H2 & H3 & H4 & H5 & H6 & H7 & H8).
        unfold wxs in *. rewrite H1, H2, H3, H4, H5, H6, H7, H8.
        unfold words_tags, words_props. cbn [map concat fold_left].
        destruct w; cbn [wx word_tags word_prop x_bump x_tag x_prop x_zid x_t5 x_p5 x_d5 x_mod x_in x_prio x_status];
          rewrite ?app_nil_r, <- ?app_assoc; repeat split; reflexivity.
    Qed.

    (* the identity position on the canonical form *)
    Definition ix (i : ident) (x : nscope) : nscope :=
      match i with
      | IPlain _ => x_bump x
      | IZid z => mkX (Some z) 1 (x_t5 x) (x_p5 x) (Some (date_of_short (zid_day z))) (x_mod x) (x_in x) (x_prio x) (x_status x)
      | IModZid m z => mkX (Some z) 2 (x_t5 x) (x_p5 x) (Some (date_of_short (zid_day z))) (Some (date_of_short m))
                           (x_in x) (x_prio x) (x_status x)
      | ILong d => mkX (x_zid x) 1 (x_t5 x) (x_p5 x) (Some (date_of_long d)) (x_mod x) (x_in x) (x_prio x) (x_status x)
      | IMod m => mkX (x_zid x) 1 (x_t5 x) (x_p5 x) (x_d5 x) (Some (date_of_short m)) (x_in x) (x_prio x) (x_status x)
      end.
    Lemma ident_fx_canon i x : ident_fx i (cn x) = cn (ix i x).
    Proof.
      destruct i; cbn [ident_fx ix]; try reflexivity; unfold canon; cbn; rewrite upd_app_last by exact Ld; reflexivity.
    Qed.
    Lemma ix_in i x : x_in (ix i x) = x_in x.
    Proof. destruct i; reflexivity. Qed.

    Definition x_reset (inn : bool) (pr stt : str) : nscope := mkX None 0 [] [] None None inn pr stt.
    Lemma fresh_canon pr stt : fresh_note (cn (x_reset true pr stt)).
    Proof.
      unfold fresh_note. cbn. repeat split. now rewrite getn_app_last by exact Ld.
    Qed.
  End Canon.

  Lemma walk_list_app a : forall b st acc0,
    walk_list (a ++ b) st acc0 = (y <- walk_list a st acc0 ;; walk_list b (fst y) (snd y)).
  Proof.
    induction a as [|k a IH]; intros b st acc0; [reflexivity|].
    cbn [app walk_list]. destruct (walk k st acc0) as [y| | |]; cbn [bind]; try reflexivity. apply IH.
  Qed.

  Lemma text_word l w : text_of (tree_of_word l w) = S " " ++ word_text w.
  Proof.
    destruct w as [s|k s|s|k v|s|z]; try destruct k; cbn; rewrite ?app_nil_r; try reflexivity.
    all: repeat (rewrite <- ?app_assoc; cbn); rewrite ?app_nil_r; reflexivity.
  Qed.
  Lemma text_words l ws : text_of (tree_of_words l ws) = words_text ws.
  Proof.
    unfold tree_of_words, nd, words_text. cbn [text_of].
    induction ws as [|w ws IH]; [reflexivity|]. cbn [map concat]. rewrite <- IH, <- (text_word l). reflexivity.
  Qed.

  Lemma create_date_6 st d0 d1 d2 d3 d4 d5 :
    s_dates st = [d0; d1; d2; d3; d4; d5] ->
    create_date today st = match d5 with Some d => d | None => outer_date today [d0; d1; d2; d3; d4] end.
  Proof.
    intros H. unfold create_date. rewrite H. cbn.
    destruct d5, d4, d3, d2, d1, d0; reflexivity.
  Qed.

  (* ---------------- one item ---------------- *)
  Definition no_scan (body : str) : Prop :=
    contains (S ":: ") body = false /\ contains (S "::" ++ [nlc]) body = false.
  Definition valid_item (it : item) : Prop :=
    valid_ident (i_ident it) /\ after_mod_ok (i_ident it) (i_words it) /\
    strip (words_text (item_words it)) <> [] /\ no_scan (strip (words_text (item_words it))).

  (* the state between items of a block *)
  Record item_entry (st : state) (ot op : list (list (str * str))) (od : list (option date)) (key : list nat) : Prop := {
    ie_body : body_mode st; ie_head : s_in_head st = false; ie_note : s_in_note st = false;
    ie_tags : exists t5, s_tags st = ot ++ [t5]; ie_props : exists p5, s_props st = op ++ [p5];
    ie_dates : exists d5, s_dates st = od ++ [d5];
    ie_block : s_block st = Some key; ie_prio : s_prio st = default_priority; ie_status : s_status st = S "o" }.

  Lemma words_tags_app a b : words_tags (a ++ b) = words_tags a ++ words_tags b.
  Proof. unfold words_tags. now rewrite map_app, concat_app. Qed.
  Lemma words_props_app a b m : words_props (a ++ b) m = words_props b (words_props a m).
  Proof. unfold words_props. now rewrite fold_left_app. Qed.
  Lemma ident_no_tags i : words_tags (ident_words i) = [].
  Proof. destruct i; reflexivity. Qed.
  Lemma ident_no_props i m : words_props (ident_words i) m = m.
  Proof. destruct i; reflexivity. Qed.

  Lemma scan_none body : no_scan body -> scan_bullets body = Ok [].
  Proof. intros (H1 & H2). unfold scan_bullets. rewrite H1, H2. reflexivity. Qed.

  Lemma reset_canon st ot op od t5 p5 d5 :
    length ot = 5%nat -> length op = 5%nat -> length od = 5%nat ->
    s_tags st = ot ++ [t5] -> s_props st = op ++ [p5] -> s_dates st = od ++ [d5] ->
    reset_note st = canon st ot op od (x_reset (s_in_note st) (s_prio st) (s_status st)).
  Proof.
    intros L1 L2 L3 H1 H2 H3. unfold reset_note, canon, x_reset. cbn.
    rewrite H1, H2, H3, !upd_app_last by assumption. reflexivity.
  Qed.

  Lemma walk_body l it st0 ot op od x0 ns f :
    body_mode st0 -> s_in_head st0 = false ->
    length ot = 5%nat -> length op = 5%nat -> length od = 5%nat ->
    valid_ident (i_ident it) -> after_mod_ok (i_ident it) (i_words it) ->
    x0 = x_reset true (x_prio x0) (x_status x0) ->
    walk (nd "note_body" l [tree_of_words l (item_words it)]) (canon st0 ot op od x0) (ns, f) =
    Ok (canon st0 ot op od (wxs (i_words it) (ix (i_ident it) x0)), (ns, f)).
  Proof.
    intros Hb Hh L1 L2 L3 V A Hx. unfold tree_of_words, nd. inert. inert. unfold item_words.
    rewrite map_app, walk_list_app.
    destruct (walk_ident l (i_ident it) (i_words it) (canon st0 ot op od x0) ns f) as (W & P & B).
    { rewrite Hx. apply fresh_canon. exact L3. }
    { exact Hb. }
    { exact V. }
    { exact A. }
    rewrite W. cbn [bind fst snd].
    rewrite walk_words_ready by assumption. cbn [bind fst snd].
    rewrite (ident_fx_canon st0 ot op od L3).
    rewrite (wsfx_canon st0 ot op od Hb Hh L1 L2); [reflexivity|].
    rewrite ix_in, Hx. reflexivity.
  Qed.

  Lemma current_tags_canon st0 ot op od x (n : string) :
    current_tags n (canon st0 ot op od x) = tagvals n (concat ot ++ x_t5 x).
  Proof. unfold current_tags, tagvals. cbn. rewrite concat_app. cbn. now rewrite app_nil_r. Qed.

  Lemma add_note_canon l ws todo st0 t0 t1 t2 t3 t4 p0 p1 p2 p3 p4 d0 d1 d2 d3 d4 x key :
    s_block st0 = Some key ->
    strip (words_text ws) <> [] -> no_scan (strip (words_text ws)) ->
    let ot := [t0; t1; t2; t3; t4] in let op := [p0; p1; p2; p3; p4] in let od := [d0; d1; d2; d3; d4] in
    let st1 := canon st0 ot op od x in
    let cd := match x_d5 x with Some d => d | None => outer_date today od end in
    add_note today false (Some (nd "note_body" l [tree_of_words l ws])) todo st1 =
    Ok (st1, Some {| n_body := strip (words_text ws); n_line := l; n_key := key;
                     n_areas := tagvals "areas" (concat ot ++ x_t5 x);
                     n_contexts := tagvals "contexts" (concat ot ++ x_t5 x);
                     n_links := tagvals "links" (concat ot ++ x_t5 x);
                     n_people := tagvals "people" (concat ot ++ x_t5 x);
                     n_projects := tagvals "projects" (concat ot ++ x_t5 x);
                     n_props := fold_left dict_union (op ++ [x_p5 x]) [];
                     n_create := cd;
                     n_modify := match x_mod x with Some d => d | None => cd end;
                     n_todo := todo; n_zid := x_zid x |}, false).
  Proof.
    intros Hk Hne Hns. cbv zeta. unfold FileListener.add_note.
    replace (text_of (nd "note_body" l [tree_of_words l ws])) with (words_text ws)
      by (unfold nd; cbn [text_of]; rewrite text_words, app_nil_r; reflexivity).
    destruct (strip (words_text ws)) as [|c body] eqn:E; [congruence|].
    rewrite scan_none by exact Hns. cbn [bind bullet_props].
    replace (s_block (canon st0 [t0; t1; t2; t3; t4] [p0; p1; p2; p3; p4] [d0; d1; d2; d3; d4] x)) with (Some key)
      by (symmetry; exact Hk).
    rewrite !current_tags_canon.
    rewrite (create_date_6 _ d0 d1 d2 d3 d4 (x_d5 x)) by reflexivity.
    reflexivity.
  Qed.

  Lemma final_fields i ws pr stt :
    let xf := wxs ws (ix i (x_reset true pr stt)) in
    x_zid xf = ident_zid i /\ x_t5 xf = words_tags (ident_words i ++ ws) /\
    x_p5 xf = words_props (ident_words i ++ ws) [] /\ x_d5 xf = ident_create today i /\
    x_mod xf = ident_modify today i /\ x_in xf = true /\ x_prio xf = pr /\ x_status xf = stt.
  Proof.
    cbv zeta. destruct (wxs_fields ws (ix i (x_reset true pr stt))) as (H1 & H2 & H3 & H4 & H5 & H6 & H7 & H8).
    rewrite H1, H2, H3, H4, H5, H6, H7, H8, words_tags_app, words_props_app, ident_no_tags, ident_no_props.
    destruct i; cbn; repeat split; reflexivity.
  Qed.

  Definition x_close (x : nscope) : nscope :=
    mkX (x_zid x) (x_ids x) (x_t5 x) (x_p5 x) (x_d5 x) (x_mod x) false default_priority (S "o").

  Lemma walk_item l it st t0 t1 t2 t3 t4 p0 p1 p2 p3 p4 d0 d1 d2 d3 d4 key ns f :
    let ot := [t0; t1; t2; t3; t4] in let op := [p0; p1; p2; p3; p4] in let od := [d0; d1; d2; d3; d4] in
    item_entry st ot op od key -> valid_item it ->
    exists x', walk (tree_of_item l it) st (ns, f) =
               Ok (canon st ot op od (x_close x'), (spec_note today ot op od key l it :: ns, f)).
  Proof.
    cbv zeta. intros [Hb Hh Hn (t5 & Ht) (p5 & Hp) (d5 & Hd) Hk Hpr Hst] (V & A & Hne & Hns).
    set (ot := [t0; t1; t2; t3; t4]). set (op := [p0; p1; p2; p3; p4]). set (od := [d0; d1; d2; d3; d4]).
    assert (L1 : length ot = 5%nat) by reflexivity. assert (L2 : length op = 5%nat) by reflexivity.
    assert (L3 : length od = 5%nat) by reflexivity.
    unfold tree_of_item. destruct (i_kind it) as [k|] eqn:Ek.
    - (* a todo *)
      unfold nd at 1. rewrite walk_node. unfold FileListener.enter at 1, FileListener.exit_ at 1. cls.
      rewrite (reset_canon st ot op od t5 p5 d5) by assumption. rewrite Hn, Hpr, Hst. cbn [bind walk_list].
      unfold nd at 1. rewrite walk_node. unfold FileListener.enter at 1, FileListener.exit_ at 1. cls.
      cbn [bind walk_list].
      change (canon st ot op od (x_reset false default_priority (S "o")) <| s_in_note := true |>)
        with (canon st ot op od (x_reset true default_priority (S "o"))).
      unfold nd at 1. rewrite walk_node. unfold FileListener.enter at 1. cls. cbn [bind].
      set (pr := match i_prio it with Some p => upper p | None => default_priority end).
      assert (Hkids : walk_list
                 ([nd "todo_prefix" l [kind_tok k]] ++
                  match i_prio it with
                  | Some p => [tks "SPACE" " "; nd "priority" l [tk "PRIORITY" p]]
                  | None => []
                  end ++ [nd "note_body" l [tree_of_words l (item_words it)]; tks "NL" "
"]) (canon st ot op od (x_reset true default_priority (S "o"))) (ns, f) =
               Ok (canon st ot op od (wxs (i_words it) (ix (i_ident it) (x_reset true pr [kind_char k]))), (ns, f))).
      { cbn [app walk_list].
        (* todo_prefix *)
        unfold nd at 1. rewrite walk_node. unfold FileListener.enter at 1, FileListener.exit_ at 1. cls.
        replace (text_of (Node (S "todo_prefix") l [kind_tok k])) with [kind_char k] by (destruct k; reflexivity).
        cbn [s_in_note canon x_reset x_in set get].
        replace (mem_c (kind_char k) (S "ox~<>")) with true by (destruct k; reflexivity).
        cbn [bind walk_list].
        replace (walk (kind_tok k)) with (walk (Tok (S "K") [kind_char k])) by (destruct k; reflexivity).
        tokstep. rewrite push_none. cbn [bind fst snd].
        change (canon st ot op od (x_reset true default_priority (S "o")) <| s_status := [kind_char k] |>)
          with (canon st ot op od (x_reset true default_priority [kind_char k])).
        destruct (i_prio it) as [p|]; cbn [app walk_list].
        - unfold tks at 1. tokstep.
          unfold nd at 1, tk. rewrite walk_node. unfold FileListener.enter at 1, FileListener.exit_ at 1. cls.
          cbn [text_of]. rewrite !app_nil_r. cbn [bind walk_list]. tokstep. rewrite push_none. cbn [bind fst snd].
          change (canon st ot op od (x_reset true default_priority [kind_char k]) <| s_prio := upper p |>)
            with (canon st ot op od (x_reset true (upper p) [kind_char k])).
          rewrite walk_body by (assumption || reflexivity). cbn [bind fst snd]. unfold tks. tokstep. reflexivity.
        - rewrite walk_body by (assumption || reflexivity). cbn [bind fst snd]. unfold tks. tokstep. reflexivity. }
      rewrite Hkids. cbn [bind fst snd].
      unfold FileListener.exit_ at 1. cls. cbv beta iota.
      match goal with |- context [child_rule "note_body" ?K] =>
        replace (child_rule "note_body" K) with (Some (nd "note_body" l [tree_of_words l (item_words it)]))
          by (destruct (i_prio it); reflexivity) end.
      destruct (final_fields (i_ident it) (i_words it) pr [kind_char k]) as (F1 & F2 & F3 & F4 & F5 & F6 & F7 & F8).
      fold (item_words it) in F2, F3.
      set (xf := wxs (i_words it) (ix (i_ident it) (x_reset true pr [kind_char k]))) in *.
      unfold ot, op, od. erewrite add_note_canon; [|exact Hk|exact Hne|exact Hns]. fold ot op od.
      cbn [bind]. cbv beta iota. cbn [bind fst snd].
      exists xf. unfold push. cbn [fst snd]. rewrite !orb_false_r.
      apply f_equal. apply f_equal2.
      + reflexivity.
      + apply f_equal2; [|reflexivity]. apply f_equal2; [|reflexivity]. unfold spec_note. rewrite Ek.
        replace (s_prio (canon st ot op od xf)) with (x_prio xf) by reflexivity.
        replace (s_status (canon st ot op od xf)) with (x_status xf) by reflexivity.
        rewrite F1, F2, F3, F4, F5, F7, F8. reflexivity.
    - (* a plain note *)
      unfold nd at 1. rewrite walk_node. unfold FileListener.enter at 1, FileListener.exit_ at 1. cls.
      rewrite (reset_canon st ot op od t5 p5 d5) by assumption. rewrite Hn, Hpr, Hst. cbn [bind walk_list].
      unfold nd at 1. inert. unfold tks at 1. tokstep.
      unfold nd at 1. rewrite walk_node. unfold FileListener.enter at 1. cls. cbn [bind walk_list].
      change (canon st ot op od (x_reset false default_priority (S "o")) <| s_in_note := true |>)
        with (canon st ot op od (x_reset true default_priority (S "o"))).
      rewrite walk_body by (assumption || reflexivity). cbn [bind fst snd]. unfold tks at 1. tokstep.
      unfold FileListener.exit_ at 1. cls. cbv beta iota.
      match goal with |- context [child_rule "note_body" ?K] =>
        replace (child_rule "note_body" K) with (Some (nd "note_body" l [tree_of_words l (item_words it)]))
          by reflexivity end.
      destruct (final_fields (i_ident it) (i_words it) default_priority (S "o")) as (F1 & F2 & F3 & F4 & F5 & F6 & F7 & F8).
      fold (item_words it) in F2, F3.
      set (xf := wxs (i_words it) (ix (i_ident it) (x_reset true default_priority (S "o")))) in *.
      unfold ot, op, od. erewrite add_note_canon; [|exact Hk|exact Hne|exact Hns]. fold ot op od.
      cbn [bind]. cbv beta iota. cbn [bind fst snd].
      exists xf. unfold push. cbn [fst snd]. rewrite !orb_false_r.
      apply f_equal. apply f_equal2.
      + unfold x_close, canon. cbn. rewrite F7, F8. reflexivity.
      + apply f_equal2; [|reflexivity]. apply f_equal2; [|reflexivity]. unfold spec_note. rewrite Ek.
        rewrite F1, F2, F3, F4, F5. reflexivity.
  Qed.

  (* ---------------- the items of a block ---------------- *)
  Definition same_frame (a b : state) : Prop :=
    s_block a = s_block b /\ s_h a = s_h b /\ s_first_comment a = s_first_comment b /\ s_in_hdr a = s_in_hdr b /\
    s_in_head a = s_in_head b /\ s_in_quoted a = s_in_quoted b /\ s_counts a = s_counts b /\ s_h0 a = s_h0 b /\
    s_sections a = s_sections b.
  Lemma same_frame_refl a : same_frame a a.
  Proof. repeat split. Qed.
  Lemma same_frame_trans a b c : same_frame a b -> same_frame b c -> same_frame a c.
  Proof.
    intros (A1 & A2 & A3 & A4 & A5 & A6 & A7 & A8 & A9) (B1 & B2 & B3 & B4 & B5 & B6 & B7 & B8 & B9).
    repeat split; congruence.
  Qed.
  Lemma same_frame_canon st ot op od x : same_frame st (canon st ot op od x).
  Proof. repeat split. Qed.

  Lemma item_entry_close st ot op od key x :
    length ot = 5%nat -> length op = 5%nat -> length od = 5%nat ->
    item_entry st ot op od key -> item_entry (canon st ot op od (x_close x)) ot op od key.
  Proof.
    intros L1 L2 L3 [Hb Hh Hn Ht Hp Hd Hk Hpr Hst]. constructor; try assumption; try reflexivity.
    - exists (x_t5 x). reflexivity.
    - exists (x_p5 x). reflexivity.
    - exists (x_d5 x). reflexivity.
  Qed.

  (* ---------------- in-block comments: read outside any note, header and head ---------------- *)
  Definition out_mode (st : state) : Prop := s_in_note st = false /\ s_in_head st = false /\ body_mode st.

  Lemma out_add_tag (n : string) v st : out_mode st -> add_tag n v st = st.
  Proof.
    intros (Hn & Hh & Hc & Hi & Hq). unfold add_tag. destruct (forallb is_digit v); [reflexivity|].
    unfold tag_scope. rewrite Hc, Hi, Hn. reflexivity.
  Qed.
  Lemma out_add_prop k v st : out_mode st -> add_prop k v st = st.
  Proof.
    intros (Hn & Hh & Hc & Hi & Hq). unfold add_prop. rewrite Hq. unfold prop_scope. rewrite Hh, Hi, Hn. reflexivity.
  Qed.
  Lemma enter_id_out txt st : out_mode st -> enter_id txt st = Ok st.
  Proof. intros (Hn & _). unfold enter_id. now rewrite Hn. Qed.
  Lemma enter_date_out kids tk0 st : child_tok "DATE" kids = Some tk0 -> out_mode st -> enter_date kids st = Ok st.
  Proof. intros Hk (Hn & Hh & Hc & Hi & Hq). unfold enter_date. rewrite Hk, Hn, Hi, Hc. reflexivity. Qed.
  Lemma walk_id_out l inner st ns f :
    out_mode st -> walk inner st (ns, f) = Ok (st, (ns, f)) -> walk (t_id l inner) st (ns, f) = Ok (st, (ns, f)).
  Proof. intros Hm Hw. eapply walk_id_node; [apply enter_id_out; exact Hm|exact Hw]. Qed.

  Lemma walk_word_out l w st ns f :
    out_mode st -> walk (tree_of_word l w) st (ns, f) = Ok (st, (ns, f)).
  Proof.
    intros Hm. destruct w as [s|k s|s|k v|s|z]; cbn [tree_of_word]; apply walk_uw.
    - unfold nd, tk. inert. erewrite walk_id_out; [reflexivity|exact Hm|apply walk_tok].
    - unfold nd at 1. inert.
      destruct k; cbn [tag_rule tag_tok tag_name]; unfold nd, tk, tks; rewrite walk_node;
        unfold FileListener.enter, FileListener.exit_; cls; unfold tag1, child1_text;
        rewrite text_id; cbn [bind walk_list app]; rewrite out_add_tag by exact Hm; tokstep;
        (erewrite walk_id_out; [|exact Hm|apply walk_tok]);
        cbn [bind fst snd]; now rewrite push_none.
    - unfold nd, tk, tks. rewrite walk_node. unfold FileListener.enter, FileListener.exit_. cls.
      unfold tag1, child1_text.
      replace (text_of (Node (S "id_group") l [t_id l (Tok (S "ID") s)])) with s by (cbn; now rewrite !app_nil_r).
      cbn [bind walk_list app]. rewrite out_add_tag by exact Hm. tokstep. inert.
      erewrite walk_id_out; [|exact Hm|apply walk_tok].
      cbn [bind fst snd]. tokstep. now rewrite push_none.
    - unfold nd at 1. inert. unfold nd, tk, tks. rewrite walk_node. unfold FileListener.enter, FileListener.exit_. cls.
      replace (child_rule "id" [t_id l (Tok (S "ID") k); Tok (S "COLON") (S ":"); Tok (S "COLON") (S ":");
                               Node (S "simple_prop_value") l [t_id l (Tok (S "ID") v)]])
        with (Some (t_id l (Tok (S "ID") k))) by reflexivity.
      replace (child_rule "simple_prop_value" [t_id l (Tok (S "ID") k); Tok (S "COLON") (S ":"); Tok (S "COLON") (S ":");
                               Node (S "simple_prop_value") l [t_id l (Tok (S "ID") v)]])
        with (Some (Node (S "simple_prop_value") l [t_id l (Tok (S "ID") v)])) by reflexivity.
      rewrite text_id.
      replace (text_of (Node (S "simple_prop_value") l [t_id l (Tok (S "ID") v)])) with v by (cbn; now rewrite !app_nil_r).
      cbn [bind walk_list]. rewrite out_add_prop by exact Hm.
      erewrite walk_id_out; [|exact Hm|apply walk_tok]. cbn [bind fst snd]. tokstep. tokstep. inert.
      erewrite walk_id_out; [|exact Hm|apply walk_tok]. cbn [bind fst snd]. now rewrite push_none.
    - unfold nd at 1. inert. erewrite walk_id_out; [reflexivity|exact Hm|].
      unfold nd, tk. rewrite walk_node. unfold FileListener.enter, FileListener.exit_. cls.
      erewrite enter_date_out; [|reflexivity|exact Hm]. cbn [bind walk_list]. tokstep. now rewrite push_none.
    - unfold nd at 1. inert. erewrite walk_id_out; [reflexivity|exact Hm|].
      unfold nd, tk. inert. tokstep. reflexivity.
  Qed.
  Lemma walk_words_out l ws : forall st ns f,
    out_mode st -> walk_list (map (tree_of_word l) ws) st (ns, f) = Ok (st, (ns, f)).
  Proof.
    induction ws as [|w ws IH]; intros st ns f Hm; [reflexivity|].
    cbn [map walk_list]. rewrite walk_word_out by exact Hm. cbn [bind fst snd]. now apply IH.
  Qed.

  (* an in-block comment: no note, and the state between items is what it was (up to the per-note slots, which the
     next item resets anyway) *)
  Lemma walk_comment l ws st t0 t1 t2 t3 t4 p0 p1 p2 p3 p4 d0 d1 d2 d3 d4 key ns f :
    let ot := [t0; t1; t2; t3; t4] in let op := [p0; p1; p2; p3; p4] in let od := [d0; d1; d2; d3; d4] in
    item_entry st ot op od key ->
    exists st', walk (tree_of_elem l (BComment ws)) st (ns, f) = Ok (st', (ns, f)) /\
                item_entry st' ot op od key /\ same_frame st st'.
  Proof.
    cbv zeta. intros [Hb Hh Hn (t5 & Ht) (p5 & Hp) (d5 & Hd) Hk Hpr Hst].
    set (ot := [t0; t1; t2; t3; t4]). set (op := [p0; p1; p2; p3; p4]). set (od := [d0; d1; d2; d3; d4]).
    assert (L1 : length ot = 5%nat) by reflexivity. assert (L2 : length op = 5%nat) by reflexivity.
    assert (L3 : length od = 5%nat) by reflexivity.
    cbn [tree_of_elem]. unfold nd at 1. rewrite walk_node. unfold FileListener.enter at 1, FileListener.exit_ at 1. cls.
    rewrite (reset_canon st ot op od t5 p5 d5) by assumption. rewrite Hn, Hpr, Hst. cbn [bind walk_list].
    set (st1 := canon st ot op od (x_reset false default_priority (S "o"))).
    assert (Hm : out_mode st1) by (unfold out_mode, st1; cbn; repeat split; try assumption; apply Hb).
    unfold nd at 1. rewrite walk_node. unfold FileListener.enter at 1, FileListener.exit_ at 1. cls. cbn [bind walk_list].
    unfold tks at 1. tokstep. unfold tree_of_words, nd at 1. inert. rewrite walk_words_out by exact Hm. cbn [bind fst snd].
    unfold tks at 1. tokstep. rewrite push_none. cbn [bind fst snd]. rewrite push_none.
    eexists. split; [reflexivity|]. destruct Hb as (Hc & Hi & Hq). split.
    - constructor; cbn; try assumption; try reflexivity.
      + repeat split; assumption.
      + exists []. reflexivity.
      + exists []. reflexivity.
      + exists None. reflexivity.
    - repeat split; cbn; try reflexivity. now rewrite Hc.
  Qed.

  Definition valid_elem (e : belem) : Prop := match e with BItem it => valid_item it | BComment _ => True end.

  Lemma walk_items t0 t1 t2 t3 t4 p0 p1 p2 p3 p4 d0 d1 d2 d3 d4 key its :
    let ot := [t0; t1; t2; t3; t4] in let op := [p0; p1; p2; p3; p4] in let od := [d0; d1; d2; d3; d4] in
    forall l st ns f,
    item_entry st ot op od key -> Forall valid_elem its ->

    exists st', walk_list (tree_of_items l its) st (ns, f) =
                Ok (st', (rev (spec_items today ot op od key l its) ++ ns, f)) /\
                item_entry st' ot op od key /\ same_frame st st'.
  Proof.
    cbv zeta. induction its as [|e its IH]; intros l st ns f He Hv.
    - exists st. split; [reflexivity|]. split; [exact He|apply same_frame_refl].
    - inversion Hv as [|? ? Hv1 Hv2]; subst. destruct e as [it|ws].
      + destruct (walk_item l it st t0 t1 t2 t3 t4 p0 p1 p2 p3 p4 d0 d1 d2 d3 d4 key ns f He Hv1) as (x' & Hw).
        cbn [tree_of_items tree_of_elem walk_list spec_items]. rewrite Hw. cbn [bind fst snd].
        edestruct (IH (Datatypes.S l)) as (st' & Hw' & He' & Hf'); [|exact Hv2|].
        { apply item_entry_close; try reflexivity. exact He. }
        exists st'. split; [|split].
        * rewrite Hw'. cbn [rev]. rewrite <- app_assoc. reflexivity.
        * exact He'.
        * eapply same_frame_trans; [apply same_frame_canon|exact Hf'].
      + destruct (walk_comment l ws st t0 t1 t2 t3 t4 p0 p1 p2 p3 p4 d0 d1 d2 d3 d4 key ns f He) as (st1 & Hw & He1 & Hf1).
        cbn [tree_of_items walk_list spec_items]. rewrite Hw. cbn [bind fst snd].
        destruct (IH (Datatypes.S l) st1 ns f He1 Hv2) as (st' & Hw' & He' & Hf').
        exists st'. split; [exact Hw'|]. split; [exact He'|]. eapply same_frame_trans; [exact Hf1|exact Hf'].
  Qed.

  (* ---------------- blocks ---------------- *)
  Record sec_state (st : state) (ot op : list (list (str * str))) (od : list (option date)) : Prop := {
    ss_body : body_mode st; ss_head : s_in_head st = false; ss_note : s_in_note st = false;
    ss_tags : exists t5, s_tags st = ot ++ [t5]; ss_props : exists p5, s_props st = op ++ [p5];
    ss_dates : exists d5, s_dates st = od ++ [d5];
    ss_prio : s_prio st = default_priority; ss_status : s_status st = S "o" }.

  Lemma item_entry_sec st ot op od key : item_entry st ot op od key -> sec_state st ot op od.
  Proof. intros []. constructor; assumption. Qed.

  Lemma path_eqb_refl p : path_eqb p p = true.
  Proof. induction p as [|x p IH]; [reflexivity|]. cbn. now rewrite Nat.eqb_refl. Qed.
  Lemma path_eqb_eq p q : path_eqb p q = true -> p = q.
  Proof.
    revert q. induction p as [|x p IH]; intros [|y q] H; try discriminate; [reflexivity|].
    cbn in H. apply andb_prop in H. destruct H as [H1 H2]. apply Nat.eqb_eq in H1. f_equal; auto.
  Qed.
  Lemma count_set_same p v m : count_of p (count_set p v m) = v.
  Proof.
    induction m as [|[k v'] m IH]; cbn; [now rewrite path_eqb_refl|].
    destruct (path_eqb p k) eqn:E; cbn; rewrite E; [reflexivity|exact IH].
  Qed.
  Lemma count_set_other p q v m : path_eqb q p = false -> count_of q (count_set p v m) = count_of q m.
  Proof.
    intros H. induction m as [|[k v'] m IH]; cbn; [now rewrite H|].
    destruct (path_eqb p k) eqn:E; cbn.
    - apply path_eqb_eq in E. subst k. now rewrite H.
    - destruct (path_eqb q k); [reflexivity|exact IH].
  Qed.

  Lemma walk_block t0 t1 t2 t3 t4 p0 p1 p2 p3 p4 d0 d1 d2 d3 d4 b l st ns f :
    let ot := [t0; t1; t2; t3; t4] in let op := [p0; p1; p2; p3; p4] in let od := [d0; d1; d2; d3; d4] in
    sec_state st ot op od -> Forall valid_elem b ->
    let P := block_parent st in let b0 := count_of (P ++ [0%nat]) (s_counts st) in
    exists st', walk (tree_of_block l b) st (ns, f) =
                Ok (st', (rev (spec_items today ot op od (P ++ [0%nat; b0]) l b) ++ ns, f)) /\
                sec_state st' ot op od /\ s_h st' = s_h st /\
                s_counts st' = count_set (P ++ [0%nat]) (Datatypes.S b0) (s_counts st).
  Proof.
    cbv zeta. intros Hs Hv. unfold tree_of_block, nd. rewrite walk_node.
    unfold FileListener.enter at 1, FileListener.exit_ at 1. cls. unfold new_block.
    set (P := block_parent st). 
    set (st0 := if no_section_open st then ensure_h0 st else st).
    assert (Hc : s_counts st0 = s_counts st) by (unfold st0, ensure_h0; destruct (no_section_open st), (s_h0 st); reflexivity).
    rewrite Hc. set (b0 := count_of (P ++ [0%nat]) (s_counts st)). cbn [bind].
    set (st1 := st0 <| s_counts := count_set (P ++ [0%nat]) (Datatypes.S b0) (s_counts st) |>
                    <| s_block := Some ((P ++ [0%nat]) ++ [b0]) |>).
    assert (He : item_entry st1 [t0; t1; t2; t3; t4] [p0; p1; p2; p3; p4] [d0; d1; d2; d3; d4] ((P ++ [0%nat]) ++ [b0])).
    { destruct Hs as [Hb Hh Hn Ht Hp Hd Hpr Hst].
      unfold st1, st0, ensure_h0. destruct (no_section_open st), (s_h0 st); constructor; try assumption; reflexivity. }
    rewrite walk_list_app.
    destruct (walk_items t0 t1 t2 t3 t4 p0 p1 p2 p3 p4 d0 d1 d2 d3 d4 ((P ++ [0%nat]) ++ [b0]) b l st1 ns f He Hv)
      as (st' & Hw & He' & Hf).
    rewrite Hw. cbn [bind fst snd walk_list]. unfold tks. tokstep. rewrite push_none.
    exists st'. rewrite <- app_assoc. cbn [app]. split; [reflexivity|].
    destruct Hf as (F1 & F2 & F3 & F4 & F5 & F6 & F7 & F8 & F9).
    split; [eapply item_entry_sec; exact He'|]. split.
    - rewrite <- F2. unfold st1, st0, ensure_h0. destruct (no_section_open st), (s_h0 st); reflexivity.
    - rewrite <- F7. reflexivity.
  Qed.

  Lemma block_parent_h st st' : s_h st' = s_h st -> block_parent st' = block_parent st.
  Proof. intros H. unfold block_parent. now rewrite H. Qed.

  Lemma walk_blocks t0 t1 t2 t3 t4 p0 p1 p2 p3 p4 d0 d1 d2 d3 d4 bs :
    let ot := [t0; t1; t2; t3; t4] in let op := [p0; p1; p2; p3; p4] in let od := [d0; d1; d2; d3; d4] in
    forall l st ns f,
    sec_state st ot op od -> Forall (Forall valid_elem) bs ->
    let P := block_parent st in let b0 := count_of (P ++ [0%nat]) (s_counts st) in
    exists st', walk_list (tree_of_blocks l bs) st (ns, f) =
                Ok (st', (rev (spec_blocks today ot op od P b0 l bs) ++ ns, f)) /\
                sec_state st' ot op od /\ s_h st' = s_h st /\
                count_of (P ++ [0%nat]) (s_counts st') = (b0 + length bs)%nat /\
                (forall q, path_eqb q (P ++ [0%nat]) = false -> count_of q (s_counts st') = count_of q (s_counts st)).
  Proof.
    cbv zeta. induction bs as [|b bs IH]; intros l st ns f Hs Hv.
    - exists st. cbn [tree_of_blocks walk_list spec_blocks rev app length]. rewrite Nat.add_0_r.
      split; [reflexivity|]. split; [exact Hs|]. split; [reflexivity|]. split; [reflexivity|]. intros; reflexivity.
    - inversion Hv as [|? ? Hv1 Hv2]; subst.
      destruct (walk_block t0 t1 t2 t3 t4 p0 p1 p2 p3 p4 d0 d1 d2 d3 d4 b l st ns f Hs Hv1) as (st1 & Hw & Hs1 & Hh1 & Hc1).
      cbn [tree_of_blocks walk_list spec_blocks]. rewrite Hw. cbn [bind fst snd].
      destruct (IH (l + Datatypes.S (length b))%nat st1 (rev (spec_items today [t0; t1; t2; t3; t4] [p0; p1; p2; p3; p4] [d0; d1; d2; d3; d4]
                     (block_parent st ++ [0%nat; count_of (block_parent st ++ [0%nat]) (s_counts st)]) l b) ++ ns) f Hs1 Hv2)
        as (st' & Hw' & Hs' & Hh' & Hc' & Ho').
      rewrite (block_parent_h st st1 Hh1) in *.
      set (P := block_parent st) in *. set (b0 := count_of (P ++ [0%nat]) (s_counts st)) in *.
      assert (Hb1 : count_of (P ++ [0%nat]) (s_counts st1) = Datatypes.S b0) by (rewrite Hc1; apply count_set_same).
      rewrite Hb1 in *.
      exists st'. split; [|split; [exact Hs'|split; [congruence|split]]].
      + rewrite Hw'. rewrite rev_app_distr, <- app_assoc. reflexivity.
      + rewrite Hc'. cbn [length]. now rewrite Nat.add_succ_r.
      + intros q Hq. rewrite (Ho' q Hq), Hc1. apply count_set_other. exact Hq.
  Qed.

  (* ---------------- words of a header or of the title line (scope sc) ---------------- *)
  Definition meta_mode (sc : nat) (st : state) : Prop :=
    s_in_note st = false /\ s_in_quoted st = false /\
    ((sc = 0%nat /\ s_first_comment st = true /\ s_in_head st = true /\ s_in_hdr st = [false; false; false; false]) \/
     (exists lvl, sc = Datatypes.S lvl /\ (lvl < 4)%nat /\ s_first_comment st = false /\ s_in_head st = false /\
                  s_in_hdr st = upd lvl (fun _ => true) [false; false; false; false])).

  Lemma meta_tag_scope sc st : meta_mode sc st -> tag_scope st = Some sc.
  Proof.
    intros (Hn & Hq & [(E & H1 & H2 & H3)|(lvl & E & Hl & H1 & H2 & H3)]); subst sc; unfold tag_scope.
    - now rewrite H1.
    - rewrite H1, H3. destruct lvl as [|[|[|[|k]]]]; [reflexivity|reflexivity|reflexivity|reflexivity|exfalso; lia].
  Qed.
  Lemma meta_prop_scope sc st : meta_mode sc st -> prop_scope st = Some sc.
  Proof.
    intros (Hn & Hq & [(E & H1 & H2 & H3)|(lvl & E & Hl & H1 & H2 & H3)]); subst sc; unfold prop_scope.
    - now rewrite H2.
    - rewrite H2, H3. destruct lvl as [|[|[|[|k]]]]; [reflexivity|reflexivity|reflexivity|reflexivity|exfalso; lia].
  Qed.
  Lemma meta_enter_date sc st kids tk0 d :
    meta_mode sc st -> child_tok "DATE" kids = Some tk0 -> from_long (text_of tk0) = Ok d ->
    enter_date kids st = Ok (st <| s_dates := upd sc (fun _ => Some d) (s_dates st) |>).
  Proof.
    intros (Hn & Hq & [(E & H1 & H2 & H3)|(lvl & E & Hl & H1 & H2 & H3)]) Hk Hd; subst sc; unfold enter_date; rewrite Hk, Hn.
    - rewrite H3, H1. cbn. unfold set_date. now rewrite Hd.
    - rewrite H3. destruct lvl as [|[|[|[|k]]]]; [| | | |exfalso; lia]; cbn; unfold set_date; rewrite Hd; reflexivity.
  Qed.

  Definition mfx (sc : nat) (w : word) (st : state) : state :=
    match w with
    | WId _ | WZid _ => st
    | WTag k s => add_tag (tag_name k) s st
    | WLink s => add_tag "links" s st
    | WProp k v => add_prop k v st
    | WDate d => st <| s_dates := upd sc (fun _ => Some (date_of_long d)) (s_dates st) |>
    end.
  Definition valid_mword (w : word) : Prop := match w with WDate d => exists dd, from_long d = Ok dd | _ => True end.

  Lemma meta_add_tag sc (n : string) v st : meta_mode sc st -> meta_mode sc (add_tag n v st).
  Proof. intros H. unfold add_tag. destruct (forallb is_digit v); [exact H|]. destruct (tag_scope st); exact H. Qed.
  Lemma meta_add_prop sc k v st : meta_mode sc st -> meta_mode sc (add_prop k v st).
  Proof. intros H. unfold add_prop. destruct (s_in_quoted st); [exact H|]. destruct (prop_scope st); exact H. Qed.
  Lemma meta_mfx sc w st : meta_mode sc st -> meta_mode sc (mfx sc w st).
  Proof.
    intros H. destruct w; cbn [mfx]; try exact H; try (apply meta_add_tag; exact H). apply meta_add_prop; exact H.
  Qed.

  Lemma enter_id_meta sc txt st : meta_mode sc st -> enter_id txt st = Ok st.
  Proof. intros (Hn & _). unfold enter_id. now rewrite Hn. Qed.

  Lemma walk_id_meta sc l inner st ns f :
    meta_mode sc st -> walk inner st (ns, f) = Ok (st, (ns, f)) ->
    walk (t_id l inner) st (ns, f) = Ok (st, (ns, f)).
  Proof. intros Hm Hw. eapply walk_id_node; [eapply enter_id_meta; exact Hm|exact Hw]. Qed.

  Lemma walk_word_meta sc l w st ns f :
    meta_mode sc st -> valid_mword w ->
    walk (tree_of_word l w) st (ns, f) = Ok (mfx sc w st, (ns, f)).
  Proof.
    intros Hm V. destruct w as [s|k s|s|k v|s|z]; cbn [tree_of_word mfx]; apply walk_uw.
    - unfold nd, tk. inert. erewrite walk_id_meta; [reflexivity|exact Hm|apply walk_tok].
    - unfold nd at 1. inert.
      destruct k; cbn [tag_rule tag_tok tag_name]; unfold nd, tk, tks; rewrite walk_node;
        unfold FileListener.enter, FileListener.exit_; cls; unfold tag1, child1_text;
        rewrite text_id; cbn [bind walk_list app]; tokstep;
        (erewrite walk_id_meta; [|apply meta_add_tag; exact Hm|apply walk_tok]);
        cbn [bind fst snd]; now rewrite push_none.
    - unfold nd, tk, tks. rewrite walk_node. unfold FileListener.enter, FileListener.exit_. cls.
      unfold tag1, child1_text.
      replace (text_of (Node (S "id_group") l [t_id l (Tok (S "ID") s)])) with s by (cbn; now rewrite !app_nil_r).
      cbn [bind walk_list app]. tokstep. inert.
      erewrite walk_id_meta; [|apply meta_add_tag; exact Hm|apply walk_tok].
      cbn [bind fst snd]. tokstep. now rewrite push_none.
    - unfold nd at 1. inert. unfold nd, tk, tks. rewrite walk_node. unfold FileListener.enter, FileListener.exit_. cls.
      replace (child_rule "id" [t_id l (Tok (S "ID") k); Tok (S "COLON") (S ":"); Tok (S "COLON") (S ":");
                               Node (S "simple_prop_value") l [t_id l (Tok (S "ID") v)]])
        with (Some (t_id l (Tok (S "ID") k))) by reflexivity.
      replace (child_rule "simple_prop_value" [t_id l (Tok (S "ID") k); Tok (S "COLON") (S ":"); Tok (S "COLON") (S ":");
                               Node (S "simple_prop_value") l [t_id l (Tok (S "ID") v)]])
        with (Some (Node (S "simple_prop_value") l [t_id l (Tok (S "ID") v)])) by reflexivity.
      rewrite text_id.
      replace (text_of (Node (S "simple_prop_value") l [t_id l (Tok (S "ID") v)])) with v by (cbn; now rewrite !app_nil_r).
      cbn [bind walk_list].
      assert (Hm' : meta_mode sc (add_prop k v st)) by (apply meta_add_prop; exact Hm).
      erewrite walk_id_meta; [|exact Hm'|apply walk_tok]. cbn [bind fst snd]. tokstep. tokstep. inert.
      erewrite walk_id_meta; [|exact Hm'|apply walk_tok]. cbn [bind fst snd]. now rewrite push_none.
    - destruct V as (dd & V). unfold nd at 1. inert.
      erewrite walk_id_node; [reflexivity|eapply enter_id_meta; exact Hm|].
      unfold nd, tk. rewrite walk_node. unfold FileListener.enter, FileListener.exit_. cls.
      erewrite meta_enter_date; [|exact Hm|reflexivity|exact V].
      cbn [bind walk_list]. tokstep. rewrite push_none.
      unfold PageSyntax.date_of_long. rewrite V. reflexivity.
    - unfold nd at 1. inert. erewrite walk_id_meta; [reflexivity|exact Hm|].
      unfold nd, tk. inert. tokstep. reflexivity.
  Qed.

  Definition msfx (sc : nat) (ws : list word) (st : state) : state := fold_left (fun s w => mfx sc w s) ws st.
  Lemma meta_msfx sc ws : forall st, meta_mode sc st -> meta_mode sc (msfx sc ws st).
  Proof. induction ws as [|w ws IH]; intros st H; [exact H|]. apply IH, meta_mfx, H. Qed.
  Lemma walk_words_meta sc l ws : forall st ns f,
    meta_mode sc st -> Forall valid_mword ws ->
    walk_list (map (tree_of_word l) ws) st (ns, f) = Ok (msfx sc ws st, (ns, f)).
  Proof.
    induction ws as [|w ws IH]; intros st ns f Hm Hv; [reflexivity|].
    inversion Hv; subst. cbn [map walk_list]. rewrite (walk_word_meta sc) by assumption. cbn [bind fst snd].
    apply IH; [apply meta_mfx; exact Hm|assumption].
  Qed.

  Lemma upd_upd {A} (f g : A -> A) n : forall l, upd n f (upd n g l) = upd n (fun x => f (g x)) l.
  Proof.
    induction n as [|n IH]; intros [|x l]; try reflexivity.
    change (x :: upd n f (upd n g l) = x :: upd n (fun x => f (g x)) l). now rewrite IH.
  Qed.
  Lemma upd_ext {A} (f g : A -> A) n : (forall x, f x = g x) -> forall l, upd n f l = upd n g l.
  Proof.
    intros E. induction n as [|n IH]; intros [|x l]; try reflexivity.
    - change (f x :: l = g x :: l). now rewrite E.
    - change (x :: upd n f l = x :: upd n g l). now rewrite IH.
  Qed.
  Lemma upd_id {A} n : forall l : list A, upd n (fun x => x) l = l.
  Proof.
    induction n as [|n IH]; intros [|x l]; try reflexivity.
    change (x :: upd n (fun x => x) l = x :: l). now rewrite IH.
  Qed.

  Definition others_same (a b : state) : Prop :=
    s_zid a = s_zid b /\ s_ids a = s_ids b /\ s_block a = s_block b /\ s_h a = s_h b /\
    s_first_comment a = s_first_comment b /\ s_in_hdr a = s_in_hdr b /\ s_in_head a = s_in_head b /\
    s_in_note a = s_in_note b /\ s_in_quoted a = s_in_quoted b /\ s_modify a = s_modify b /\
    s_prio a = s_prio b /\ s_status a = s_status b /\ s_counts a = s_counts b /\ s_h0 a = s_h0 b /\
    s_sections a = s_sections b.
  Lemma others_same_refl a : others_same a a.
  Proof. repeat split. Qed.
  Lemma others_same_trans a b c : others_same a b -> others_same b c -> others_same a c.
  Proof.
    intros (A1 & A2 & A3 & A4 & A5 & A6 & A7 & A8 & A9 & A10 & A11 & A12 & A13 & A14 & A15)
           (B1 & B2 & B3 & B4 & B5 & B6 & B7 & B8 & B9 & B10 & B11 & B12 & B13 & B14 & B15).
    repeat split; congruence.
  Qed.

  Lemma mfx_proj sc w st :
    meta_mode sc st ->
    s_tags (mfx sc w st) = upd sc (fun l => l ++ word_tags w) (s_tags st) /\
    s_props (mfx sc w st) = upd sc (fun m => word_prop m w) (s_props st) /\
    s_dates (mfx sc w st) = upd sc (fun d => word_date today d w) (s_dates st) /\
    others_same st (mfx sc w st).
  Proof.
    intros Hm. pose proof (meta_tag_scope sc st Hm) as Ht. pose proof (meta_prop_scope sc st Hm) as Hp.
    destruct Hm as (Hn & Hq & _).
    assert (Idl : forall l : list (list (str * str)), upd sc (fun l => l ++ []) l = l)
      by (intros l; rewrite (upd_ext _ (fun x => x)) by (intros; apply app_nil_r); apply upd_id).
    destruct w as [s|k s|s|k v|s|z]; cbn [mfx word_tags word_prop word_date].
    - rewrite Idl, !upd_id. repeat split.
    - unfold add_tag. destruct (forallb is_digit s).
      + rewrite Idl, !upd_id. repeat split.
      + rewrite Ht. cbn. rewrite !upd_id. repeat split.
    - unfold add_tag. destruct (forallb is_digit s).
      + rewrite Idl, !upd_id. repeat split.
      + rewrite Ht. cbn. rewrite !upd_id. repeat split.
    - unfold add_prop. rewrite Hq, Hp. cbn. rewrite Idl, !upd_id. repeat split.
    - cbn. rewrite Idl, !upd_id. repeat split.
    - rewrite Idl, !upd_id. repeat split.
  Qed.

  Lemma msfx_proj sc ws : forall st,
    meta_mode sc st ->
    s_tags (msfx sc ws st) = upd sc (fun l => l ++ words_tags ws) (s_tags st) /\
    s_props (msfx sc ws st) = upd sc (words_props ws) (s_props st) /\
    s_dates (msfx sc ws st) = upd sc (words_date today ws) (s_dates st) /\
    others_same st (msfx sc ws st).
  Proof.
    induction ws as [|w ws IH]; intros st Hm.
    - cbn [msfx fold_left]. unfold words_tags, words_props, words_date. cbn [map concat fold_left].
      rewrite (upd_ext _ (fun x => x)) by (intros; apply app_nil_r). rewrite !upd_id. repeat split.
    - cbn [msfx fold_left]. destruct (mfx_proj sc w st Hm) as (A1 & A2 & A3 & A4).
      destruct (IH (mfx sc w st) (meta_mfx sc w st Hm)) as (B1 & B2 & B3 & B4).
      unfold msfx in *. rewrite B1, B2, B3, A1, A2, A3, !upd_upd.
      split; [|split; [|split]].
      + apply upd_ext. intros x. unfold words_tags. cbn [map concat]. now rewrite app_assoc.
      + reflexivity.
      + reflexivity.
      + eapply others_same_trans; eassumption.
  Qed.

  (* ---------------- section headers ---------------- *)
  Lemma upd_app_l {A} (f : A -> A) n : forall a b : list A, (n < length a)%nat -> upd n f (a ++ b) = upd n f a ++ b.
  Proof.
    induction n as [|n IH]; intros [|x a] b H; try (cbn in H; lia); [reflexivity|].
    change (x :: upd n f (a ++ b) = x :: upd n f a ++ b). rewrite IH; [reflexivity|cbn in H; lia].
  Qed.

  Definition parent_of (lvl : nat) (hs : list (option (list nat))) : list nat :=
    match lvl with
    | 0 => []
    | 1 => match getn 0 hs None with Some p => p | None => [0%nat] end
    | Datatypes.S k => match getn k hs None with Some p => p | None => [] end
    end.

  Lemma walk_header lvl l title st ns f t0 t1 t2 t3 t4 p0 p1 p2 p3 p4 d0 d1 d2 d3 d4 h0 h1 h2 h3 :
    let ot := [t0; t1; t2; t3; t4] in let op := [p0; p1; p2; p3; p4] in let od := [d0; d1; d2; d3; d4] in
    let hs := [h0; h1; h2; h3] in
    (lvl < 4)%nat -> sec_state st ot op od -> s_h st = hs ->
    (2 <= lvl -> getn (lvl - 1) hs None <> None)%nat ->
    Forall valid_mword title ->
    let par := parent_of lvl hs in let j := count_of par (s_counts st) in
    exists st', walk (tree_of_header lvl l title) st (ns, f) = Ok (st', (ns, f)) /\
                sec_state st' (upd (Datatypes.S lvl) (fun t => t ++ words_tags title) ot)
                              (upd (Datatypes.S lvl) (words_props title) op)
                              (upd (Datatypes.S lvl) (words_date today title) od) /\
                s_h st' = upd lvl (fun _ => Some (par ++ [Datatypes.S j])) hs /\
                s_counts st' = count_set par (Datatypes.S j) (s_counts st).
  Proof.
    cbv zeta. intros Hl [Hb Hh Hn (t5 & Ht) (p5 & Hp) (d5 & Hd) Hpr Hst] Hhs Hpar Hv.
    destruct Hb as (Hc & Hhd & Hq).
    unfold tree_of_header.
    (* the state right after enter_header, for each level *)
    assert (E : exists stE,
      FileListener.enter (S (hdr_rule lvl)) l
        [ruler lvl; tree_of_words l title; nd "eol" l [nl_tok]] st = Ok stE /\
      meta_mode (Datatypes.S lvl) stE /\ s_tags stE = s_tags st /\ s_props stE = s_props st /\ s_dates stE = s_dates st /\
      s_prio stE = s_prio st /\ s_status stE = s_status st /\
      s_h stE = upd lvl (fun _ => Some (parent_of lvl [h0; h1; h2; h3] ++
                                        [Datatypes.S (count_of (parent_of lvl [h0; h1; h2; h3]) (s_counts st))])) [h0; h1; h2; h3] /\
      s_counts stE = count_set (parent_of lvl [h0; h1; h2; h3])
                       (Datatypes.S (count_of (parent_of lvl [h0; h1; h2; h3]) (s_counts st))) (s_counts st)).
    { unfold FileListener.enter.
      destruct lvl as [|[|[|[|k]]]]; [| | | |exfalso; lia]; cbn [hdr_rule]; cls; unfold enter_header;
        (replace (child_rule "space_atoms" [ruler _; tree_of_words l title; nd "eol" l [nl_tok]])
           with (Some (tree_of_words l title)) by reflexivity).
      - unfold new_section. cbn. eexists. split; [reflexivity|].
        unfold meta_mode. cbn. rewrite ?Hn, ?Hq, ?Hc, ?Hh, ?Hhd, ?Hhs. repeat split; auto.
        right. exists 0%nat. repeat split; auto.
      - cbn. rewrite Hhs. cbn [getn nth parent_of]. destruct h0 as [p|].
        + unfold new_section. cbn. eexists. split; [reflexivity|].
          unfold meta_mode. cbn. rewrite ?Hn, ?Hq, ?Hc, ?Hh, ?Hhd, ?Hhs. repeat split; auto.
          right. exists 1%nat. repeat split; auto.
        + unfold new_section, ensure_h0. destruct (s_h0 _) eqn:E0; cbn; (eexists; split; [reflexivity|]);
            unfold meta_mode; cbn; rewrite ?Hn, ?Hq, ?Hc, ?Hh, ?Hhd, ?Hhs; (repeat split; auto);
            right; exists 1%nat; repeat split; auto.
      - cbn. rewrite Hhs. cbn [getn nth parent_of Nat.sub].
        destruct h1 as [p|]; [|exfalso; apply Hpar; [lia|reflexivity]].
        unfold new_section. cbn. eexists. split; [reflexivity|].
        unfold meta_mode. cbn. rewrite ?Hn, ?Hq, ?Hc, ?Hh, ?Hhd, ?Hhs. repeat split; auto.
        right. exists 2%nat. repeat split; auto.
      - cbn. rewrite Hhs. cbn [getn nth parent_of Nat.sub].
        destruct h2 as [p|]; [|exfalso; apply Hpar; [lia|reflexivity]].
        unfold new_section. cbn. eexists. split; [reflexivity|].
        unfold meta_mode. cbn. rewrite ?Hn, ?Hq, ?Hc, ?Hh, ?Hhd, ?Hhs. repeat split; auto.
        right. exists 3%nat. repeat split; auto. }
    destruct E as (stE & He & Hm & Et & Ep & Ed & Epr & Est & Eh & Ec).
    unfold nd at 1. rewrite walk_node. rewrite He. cbn [bind walk_list].
    replace (walk (ruler lvl)) with (walk (Tok (S "R") [])) by (destruct lvl as [|[|[|]]]; reflexivity).
    tokstep. unfold tree_of_words at 1, nd at 1. inert.
    rewrite (walk_words_meta (Datatypes.S lvl)) by assumption. cbn [bind fst snd].
    unfold nd, nl_tok, tks. inert. tokstep. cbn [bind fst snd].
    destruct (msfx_proj (Datatypes.S lvl) title stE Hm) as (Mt & Mp & Md & Mo).
    destruct Mo as (O1 & O2 & O3 & O4 & O5 & O6 & O7 & O8 & O9 & O10 & O11 & O12 & O13 & O14 & O15).
    set (stM := msfx (Datatypes.S lvl) title stE) in *.
    destruct Hm as (Hmn & Hmq & [(Ebad & _)|(lvl' & El & Hl' & Hmc & Hmh & Hmhd)]); [discriminate|].
    inversion El; subst lvl'.
    unfold FileListener.exit_. 
    replace (classify (S (hdr_rule lvl))) with (RHeader lvl) by (destruct lvl as [|[|[|[|k]]]]; [reflexivity..|exfalso; lia]).
    cbn [bind fst snd]. rewrite push_none.
    eexists. split; [reflexivity|]. split; [|split].
    - constructor; cbn.
      + unfold body_mode. cbn. rewrite <- O5, <- O6, <- O9, Hmc, Hmhd, Hmq.
        destruct lvl as [|[|[|[|k]]]]; [| | | |exfalso; lia]; repeat split; reflexivity.
      + rewrite <- O7. exact Hmh.
      + rewrite <- O8. exact Hmn.
      + exists t5. rewrite Mt, Et, Ht. apply upd_app_l. cbn. lia.
      + exists p5. rewrite Mp, Ep, Hp. apply upd_app_l. cbn. lia.
      + exists d5. rewrite Md, Ed, Hd. apply upd_app_l. cbn. lia.
      + rewrite <- O11, Epr. exact Hpr.
      + rewrite <- O12, Est. exact Hst.
    - cbn. rewrite <- O4. exact Eh.
    - cbn. rewrite <- O13. exact Ec.
  Qed.

  (* ---------------- sections ---------------- *)
  Section GsecInd.
    Variable P : gsec -> Prop.
    Hypothesis HG : forall title bs subs, Forall P subs -> P (GSec title bs subs).
    Fixpoint gsec_ind2 (s : gsec) : P s :=
      match s with
      | GSec t b subs =>
          HG t b subs ((fix go (ss : list gsec) : Forall P ss :=
                          match ss with
                          | [] => Forall_nil _
                          | x :: r => Forall_cons _ (gsec_ind2 x) (go r)
                          end) subs)
      end.
  End GsecInd.

  Lemma tree_of_sec_eq lvl l title bs subs :
    tree_of_sec lvl l (GSec title bs subs) =
    nd (sec_rule lvl) l ([tree_of_header lvl l title; nl_tok] ++ tree_of_blocks (l + 2) bs ++
                         tree_of_secs (Datatypes.S lvl) (l + 2 + blocks_lines bs) subs).
  Proof.
    cbn [tree_of_sec]. f_equal. f_equal. f_equal.
    generalize (l + 2 + blocks_lines bs)%nat. induction subs as [|s' r IH]; intros l'; [reflexivity|].
    cbn [tree_of_secs]. f_equal. apply IH.
  Qed.
  Lemma spec_sec_eq lvl ot op od path l title bs subs :
    spec_sec today lvl ot op od path l (GSec title bs subs) =
    let ot' := upd (Datatypes.S lvl) (fun _ => words_tags title) ot in
    let op' := upd (Datatypes.S lvl) (fun _ => words_props title []) op in
    let od' := upd (Datatypes.S lvl) (fun _ => words_date today title None) od in
    spec_blocks today ot' op' od' path 0 (l + 2) bs ++
    spec_secs today (Datatypes.S lvl) ot' op' od' path 0 (l + 2 + blocks_lines bs) subs.
  Proof.
    cbv zeta. cbn [spec_sec]. f_equal.
    generalize (l + 2 + blocks_lines bs)%nat. intros L. generalize 0%nat. revert L. induction subs as [|s' r IH]; intros l' j; [reflexivity|].
    cbn [spec_secs]. f_equal. apply IH.
  Qed.

  Fixpoint valid_sec (lvl : nat) (s : gsec) : Prop :=
    match s with
    | GSec title bs subs =>
        (lvl < 4)%nat /\ Forall valid_mword title /\ Forall (Forall valid_elem) bs /\
        (fix go (ss : list gsec) : Prop := match ss with [] => True | s' :: r => valid_sec (Datatypes.S lvl) s' /\ go r end) subs
    end.
  Fixpoint valid_secs (lvl : nat) (ss : list gsec) : Prop :=
    match ss with [] => True | s' :: r => valid_sec lvl s' /\ valid_secs lvl r end.
  Lemma valid_sec_eq lvl title bs subs :
    valid_sec lvl (GSec title bs subs) <->
    (lvl < 4)%nat /\ Forall valid_mword title /\ Forall (Forall valid_elem) bs /\ valid_secs (Datatypes.S lvl) subs.
  Proof.
    cbn [valid_sec]. assert (E : forall ss, (fix go (ss : list gsec) : Prop :=
                 match ss with [] => True | s' :: r => valid_sec (Datatypes.S lvl) s' /\ go r end) ss <-> valid_secs (Datatypes.S lvl) ss).
    { induction ss as [|s' r IH]; [reflexivity|]. cbn [valid_secs]. now rewrite IH. }
    now rewrite E.
  Qed.

  (* paths and the children counters *)
  Definition prefix (p q : list nat) : Prop := exists r, q = p ++ r.
  Definition fresh_under (p : list nat) (m : list (list nat * nat)) : Prop := forall q, prefix p q -> count_of q m = 0%nat.
  Definition fresh_from (par : list nat) (j : nat) (m : list (list nat * nat)) : Prop :=
    forall j' q, (j <= j')%nat -> prefix (par ++ [Datatypes.S j']) q -> count_of q m = 0%nat.

  Lemma prefix_refl p : prefix p p.
  Proof. exists []. now rewrite app_nil_r. Qed.
  Lemma prefix_app p r : prefix p (p ++ r).
  Proof. now exists r. Qed.
  Lemma prefix_child p j q : prefix (p ++ [j]) q -> prefix p q.
  Proof. intros (r & E). exists ([j] ++ r). now rewrite E, <- app_assoc. Qed.
  Lemma child_not_block p j q : prefix (p ++ [Datatypes.S j]) q -> q <> p ++ [0%nat].
  Proof. intros (r & E) H. rewrite E, <- app_assoc in H. apply app_inv_head in H. discriminate. Qed.
  Lemma child_not_self p j q : prefix (p ++ [j]) q -> q <> p.
  Proof.
    intros (r & E) H. rewrite E, <- app_assoc in H. rewrite <- (app_nil_r p) in H at 2. apply app_inv_head in H. discriminate.
  Qed.
  Lemma child_other p j j' q : prefix (p ++ [j']) q -> j <> j' -> ~ prefix (p ++ [j]) q.
  Proof.
    intros (r & E) Hn (r' & E'). rewrite E, <- !app_assoc in E'. apply app_inv_head in E'. inversion E'. congruence.
  Qed.
  Lemma path_eqb_neq p q : p <> q -> path_eqb p q = false.
  Proof. intros H. destruct (path_eqb p q) eqn:E; [|reflexivity]. apply path_eqb_eq in E. contradiction. Qed.

  Lemma upd_length {A} (f : A -> A) n : forall l, length (upd n f l) = length l.
  Proof.
    induction n as [|n IH]; intros [|x l]; try reflexivity.
    change (Datatypes.S (length (upd n f l)) = Datatypes.S (length l)). now rewrite IH.
  Qed.
  Lemma upd_const_same {A} (d : A) n : forall l, getn n l d = d -> upd n (fun _ => d) l = l.
  Proof.
    induction n as [|n IH]; intros [|x l] H; try reflexivity.
    - cbn in H. subst x. reflexivity.
    - change (x :: upd n (fun _ => d) l = x :: l). rewrite IH; [reflexivity|exact H].
  Qed.
  Lemma upd_eq_at {A} (f g : A -> A) (d : A) n : forall l, f (getn n l d) = g (getn n l d) -> upd n f l = upd n g l.
  Proof.
    induction n as [|n IH]; intros [|x l] H; try reflexivity.
    - cbn in H. change (f x :: l = g x :: l). now rewrite H.
    - change (x :: upd n f l = x :: upd n g l). rewrite (IH l); [reflexivity|exact H].
  Qed.
  Lemma list5 {A} (l : list A) : length l = 5%nat -> exists a b c d e, l = [a; b; c; d; e].
  Proof.
    destruct l as [|a [|b [|c [|d [|e [|x l]]]]]]; intros H; try discriminate. now exists a, b, c, d, e.
  Qed.

  Definition closed_from (lvl : nat) (hs : list (option (list nat))) : Prop :=
    forall k, (lvl <= k)%nat -> getn k hs None = None.
  Definition empty_from (lvl : nat) (ot op : list (list (str * str))) (od : list (option date)) : Prop :=
    forall k, (lvl < k)%nat -> getn k ot [] = [] /\ getn k op [] = [] /\ getn k od None = None.

  Lemma block_parent_open lvl st h0 h1 h2 h3 p :
    (lvl < 4)%nat -> closed_from lvl [h0; h1; h2; h3] ->
    s_h st = upd lvl (fun _ => Some p) [h0; h1; h2; h3] -> block_parent st = p /\ no_section_open st = false.
  Proof.
    intros Hl Hc Hs. unfold block_parent, no_section_open. rewrite Hs.
    destruct lvl as [|[|[|[|k]]]]; [| | | |lia].
    - pose proof (Hc 1%nat ltac:(lia)) as C1. pose proof (Hc 2%nat ltac:(lia)) as C2. pose proof (Hc 3%nat ltac:(lia)) as C3.
      cbn in C1, C2, C3. subst. split; reflexivity.
    - pose proof (Hc 2%nat ltac:(lia)) as C2. pose proof (Hc 3%nat ltac:(lia)) as C3.
      cbn in C2, C3. subst. split; [reflexivity|destruct h0; reflexivity].
    - pose proof (Hc 3%nat ltac:(lia)) as C3. cbn in C3. subst. split; [reflexivity|destruct h0, h1; reflexivity].
    - split; [reflexivity|destruct h0, h1, h2; reflexivity].
  Qed.

  Lemma closed_upd lvl h0 h1 h2 h3 p :
    (lvl < 4)%nat -> closed_from lvl [h0; h1; h2; h3] ->
    closed_from (Datatypes.S lvl) (upd lvl (fun _ => Some p) [h0; h1; h2; h3]).
  Proof.
    intros Hl H k Hk. specialize (H k ltac:(lia)).
    destruct lvl as [|[|[|[|n]]]]; [| | | |lia];
      destruct k as [|[|[|[|k]]]]; try lia; try exact H; destruct k; reflexivity.
  Qed.

  Lemma list4 {A} (l : list A) : length l = 4%nat -> exists a b c d, l = [a; b; c; d].
  Proof. destruct l as [|a [|b [|c [|d [|x l]]]]]; intros H; try discriminate. now exists a, b, c, d. Qed.

  (* the lemmas above, for contexts given as lists of the right length *)
  Lemma walk_blocks_g ot op od bs l st ns f :
    length ot = 5%nat -> length op = 5%nat -> length od = 5%nat ->
    sec_state st ot op od -> Forall (Forall valid_elem) bs ->
    let P := block_parent st in let b0 := count_of (P ++ [0%nat]) (s_counts st) in
    exists st', walk_list (tree_of_blocks l bs) st (ns, f) =
                Ok (st', (rev (spec_blocks today ot op od P b0 l bs) ++ ns, f)) /\
                sec_state st' ot op od /\ s_h st' = s_h st /\
                count_of (P ++ [0%nat]) (s_counts st') = (b0 + length bs)%nat /\
                (forall q, path_eqb q (P ++ [0%nat]) = false -> count_of q (s_counts st') = count_of q (s_counts st)).
  Proof.
    intros L1 L2 L3. destruct (list5 ot L1) as (t0 & t1 & t2 & t3 & t4 & ->).
    destruct (list5 op L2) as (p0 & p1 & p2 & p3 & p4 & ->). destruct (list5 od L3) as (d0 & d1 & d2 & d3 & d4 & ->).
    apply walk_blocks.
  Qed.
  Lemma walk_header_g lvl l title st ns f ot op od hs :
    length ot = 5%nat -> length op = 5%nat -> length od = 5%nat -> length hs = 4%nat ->
    (lvl < 4)%nat -> sec_state st ot op od -> s_h st = hs ->
    ((2 <= lvl)%nat -> getn (lvl - 1) hs None <> None) ->
    Forall valid_mword title ->
    let par := parent_of lvl hs in let j := count_of par (s_counts st) in
    exists st', walk (tree_of_header lvl l title) st (ns, f) = Ok (st', (ns, f)) /\
                sec_state st' (upd (Datatypes.S lvl) (fun t => t ++ words_tags title) ot)
                              (upd (Datatypes.S lvl) (words_props title) op)
                              (upd (Datatypes.S lvl) (words_date today title) od) /\
                s_h st' = upd lvl (fun _ => Some (par ++ [Datatypes.S j])) hs /\
                s_counts st' = count_set par (Datatypes.S j) (s_counts st).
  Proof.
    intros L1 L2 L3 L4. destruct (list5 ot L1) as (t0 & t1 & t2 & t3 & t4 & ->).
    destruct (list5 op L2) as (p0 & p1 & p2 & p3 & p4 & ->). destruct (list5 od L3) as (d0 & d1 & d2 & d3 & d4 & ->).
    destruct (list4 hs L4) as (h0 & h1 & h2 & h3 & ->). apply walk_header.
  Qed.
  Lemma block_parent_open_g lvl st hs p :
    length hs = 4%nat -> (lvl < 4)%nat -> closed_from lvl hs ->
    s_h st = upd lvl (fun _ => Some p) hs -> block_parent st = p /\ no_section_open st = false.
  Proof. intros L4. destruct (list4 hs L4) as (h0 & h1 & h2 & h3 & ->). apply block_parent_open. Qed.
  Lemma closed_upd_g lvl hs p :
    length hs = 4%nat -> (lvl < 4)%nat -> closed_from lvl hs -> closed_from (Datatypes.S lvl) (upd lvl (fun _ => Some p) hs).
  Proof. intros L4. destruct (list4 hs L4) as (h0 & h1 & h2 & h3 & ->). apply closed_upd. Qed.

  Definition SecOK (s : gsec) : Prop :=
    forall lvl l st ns f ot op od hs,
    length ot = 5%nat -> length op = 5%nat -> length od = 5%nat -> length hs = 4%nat ->
    valid_sec lvl s -> sec_state st ot op od -> s_h st = hs -> closed_from lvl hs ->
    ((2 <= lvl)%nat -> getn (lvl - 1) hs None <> None) -> empty_from lvl ot op od ->
    let par := parent_of lvl hs in let j := count_of par (s_counts st) in let p := par ++ [Datatypes.S j] in
    fresh_under p (s_counts st) ->
    exists st', walk (tree_of_sec lvl l s) st (ns, f) =
                Ok (st', (rev (spec_sec today lvl ot op od p l s) ++ ns, f)) /\
                sec_state st' ot op od /\ s_h st' = hs /\ count_of par (s_counts st') = Datatypes.S j /\
                (forall q, ~ prefix p q -> q <> par -> count_of q (s_counts st') = count_of q (s_counts st)).

  Lemma walk_secs ss : Forall SecOK ss ->
    forall lvl l st ns f ot op od hs,
    length ot = 5%nat -> length op = 5%nat -> length od = 5%nat -> length hs = 4%nat ->
    valid_secs lvl ss -> sec_state st ot op od -> s_h st = hs -> closed_from lvl hs ->
    ((2 <= lvl)%nat -> getn (lvl - 1) hs None <> None) -> empty_from lvl ot op od ->
    let par := parent_of lvl hs in let j0 := count_of par (s_counts st) in
    fresh_from par j0 (s_counts st) ->
    exists st', walk_list (tree_of_secs lvl l ss) st (ns, f) =
                Ok (st', (rev (spec_secs today lvl ot op od par j0 l ss) ++ ns, f)) /\
                sec_state st' ot op od /\ s_h st' = hs /\
                (forall q, ~ prefix par q -> count_of q (s_counts st') = count_of q (s_counts st)).
  Proof.
    cbv zeta. induction 1 as [|s ss Hs _ IH];
      intros lvl l st ns f ot op od hs L1 L2 L3 L4 Hv Hst Hh Hc Hp He Hf.
    - exists st. cbn [tree_of_secs walk_list spec_secs rev app]. split; [reflexivity|]. split; [exact Hst|]. split; [exact Hh|]. intros; reflexivity.
    - destruct Hv as [Hv1 Hv2]. cbn [tree_of_secs walk_list spec_secs].
      set (par := parent_of lvl hs) in *. set (j0 := count_of par (s_counts st)) in *.
      destruct (Hs lvl l st ns f ot op od hs L1 L2 L3 L4 Hv1 Hst Hh Hc Hp He)
        as (st1 & Hw1 & Hst1 & Hh1 & Hc1 & Ho1).
      { intros q Hq. apply (Hf j0 q (le_n _) Hq). }
      fold par in Hw1, Hc1, Ho1. fold j0 in Hw1, Hc1, Ho1.
      rewrite Hw1. cbn [bind fst snd].
      destruct (IH lvl (l + sec_lines s)%nat st1
                  (rev (spec_sec today lvl ot op od (par ++ [Datatypes.S j0]) l s) ++ ns) f
                  ot op od hs L1 L2 L3 L4 Hv2 Hst1 Hh1 Hc Hp He)
        as (st2 & Hw2 & Hst2 & Hh2 & Ho2).
      { fold par. rewrite Hc1. intros j' q Hj Hq.
        rewrite Ho1; [apply (Hf j' q ltac:(lia) Hq)| |eapply child_not_self; exact Hq].
        eapply child_other; [exact Hq|lia]. }
      fold par in Hw2, Ho2. rewrite Hc1 in Hw2.
      exists st2. split; [|split; [exact Hst2|split; [exact Hh2|]]].
      + rewrite Hw2. rewrite rev_app_distr, <- app_assoc. reflexivity.
      + intros q Hq. rewrite Ho2 by exact Hq. apply Ho1.
        * intros Hq'. apply Hq. eapply prefix_child. exact Hq'.
        * intros ->. apply Hq. apply prefix_refl.
  Qed.

  Lemma getn_upd_other {A} (f : A -> A) (d : A) n : forall k l, k <> n -> getn k (upd n f l) d = getn k l d.
  Proof.
    induction n as [|n IH]; intros k [|x l] H; try reflexivity.
    - destruct k; [congruence|reflexivity].
    - destruct k; [reflexivity|]. change (getn k (upd n f l) d = getn k l d). apply IH. congruence.
  Qed.
  Lemma getn_upd_same {A} (f : A -> A) (d : A) n : forall l, (n < length l)%nat -> getn n (upd n f l) d = f (getn n l d).
  Proof.
    induction n as [|n IH]; intros [|x l] H; try (cbn in H; lia); [reflexivity|].
    change (getn n (upd n f l) d = f (getn n l d)). apply IH. cbn in H. lia.
  Qed.
  Lemma parent_of_upd lvl hs p :
    length hs = 4%nat -> (lvl < 4)%nat -> parent_of (Datatypes.S lvl) (upd lvl (fun _ => Some p) hs) = p.
  Proof.
    intros L4 Hl. destruct (list4 hs L4) as (h0 & h1 & h2 & h3 & ->).
    destruct lvl as [|[|[|[|k]]]]; [reflexivity..|lia].
  Qed.

  Lemma sec_ok : forall s, SecOK s.
  Proof.
    induction s as [title bs subs IH] using gsec_ind2. unfold SecOK. cbv zeta.
    intros lvl l st ns f ot op od hs L1 L2 L3 L4 Hv Hst Hh Hc Hp He Hf.
    apply valid_sec_eq in Hv. destruct Hv as (Hl & Hvt & Hvb & Hvs).
    set (par := parent_of lvl hs) in *. set (j := count_of par (s_counts st)) in *. set (p := par ++ [Datatypes.S j]) in *.
    rewrite tree_of_sec_eq, spec_sec_eq. cbv zeta.
    unfold nd at 1. rewrite walk_node. unfold FileListener.enter at 1.
    replace (classify (S (sec_rule lvl))) with (RSection lvl) by (destruct lvl as [|[|[|[|k]]]]; [reflexivity..|lia]).
    cbn [bind]. cbn [app walk_list].
    (* the header *)
    destruct (walk_header_g lvl l title st ns f ot op od hs L1 L2 L3 L4 Hl Hst Hh Hp Hvt) as (st1 & Hw1 & Hst1 & Hh1 & Hc1).
    fold par in Hh1, Hc1. fold j in Hh1, Hc1. fold p in Hh1.
    rewrite Hw1. cbn [bind fst snd]. unfold nl_tok at 1, tks at 1. tokstep.
    destruct (He (Datatypes.S lvl) ltac:(lia)) as (E1 & E2 & E3).
    assert (Eot : upd (Datatypes.S lvl) (fun t => t ++ words_tags title) ot = upd (Datatypes.S lvl) (fun _ => words_tags title) ot)
      by (apply upd_eq_at with (d := []); rewrite E1; reflexivity).
    assert (Eop : upd (Datatypes.S lvl) (words_props title) op = upd (Datatypes.S lvl) (fun _ => words_props title []) op)
      by (apply upd_eq_at with (d := []); rewrite E2; reflexivity).
    assert (Eod : upd (Datatypes.S lvl) (words_date today title) od = upd (Datatypes.S lvl) (fun _ => words_date today title None) od)
      by (apply upd_eq_at with (d := None); rewrite E3; reflexivity).
    rewrite Eot, Eop, Eod in Hst1.
    set (ot1 := upd (Datatypes.S lvl) (fun _ => words_tags title) ot) in *.
    set (op1 := upd (Datatypes.S lvl) (fun _ => words_props title []) op) in *.
    set (od1 := upd (Datatypes.S lvl) (fun _ => words_date today title None) od) in *.
    assert (M1 : length ot1 = 5%nat) by (unfold ot1; now rewrite upd_length).
    assert (M2 : length op1 = 5%nat) by (unfold op1; now rewrite upd_length).
    assert (M3 : length od1 = 5%nat) by (unfold od1; now rewrite upd_length).
    set (hs1 := upd lvl (fun _ => Some p) hs) in *.
    assert (M4 : length hs1 = 4%nat) by (unfold hs1; now rewrite upd_length).
    (* the blocks *)
    rewrite walk_list_app.
    destruct (block_parent_open_g lvl st1 hs p L4 Hl Hc Hh1) as (HP & Hno).
    destruct (walk_blocks_g ot1 op1 od1 bs (l + 2)%nat st1 ns f M1 M2 M3 Hst1 Hvb) as (st2 & Hw2 & Hst2 & Hh2 & Hc2 & Ho2).
    rewrite HP in Hw2, Hc2, Ho2.
    assert (Hpar_p : par <> p) by (intros E; symmetry in E; revert E; apply child_not_self with (j := Datatypes.S j); apply prefix_refl).
    assert (Hb0 : count_of (p ++ [0%nat]) (s_counts st1) = 0%nat).
    { rewrite Hc1, count_set_other; [apply Hf; apply prefix_app|].
      apply path_eqb_neq. intros E. apply Hpar_p. 
      assert (prefix p par) by (exists [0%nat]; now rewrite E). 
      exfalso. destruct H as (r & Er). unfold p in Er. rewrite <- app_assoc in Er.
      rewrite <- (app_nil_r par) in Er at 1. apply app_inv_head in Er. discriminate. }
    rewrite Hb0 in Hw2, Hc2. rewrite Hw2. cbn [bind fst snd].
    (* the sub-sections *)
    assert (Hpp : parent_of (Datatypes.S lvl) hs1 = p) by (apply parent_of_upd; assumption).
    assert (Hcp2 : count_of p (s_counts st2) = 0%nat).
    { rewrite Ho2, Hc1, count_set_other; [apply Hf, prefix_refl| |].
      - apply path_eqb_neq. congruence.
      - apply path_eqb_neq. intros E. rewrite <- (app_nil_r p) in E at 1. apply app_inv_head in E. discriminate. }
    destruct (walk_secs subs IH (Datatypes.S lvl) (l + 2 + blocks_lines bs)%nat st2
                (rev (spec_blocks today ot1 op1 od1 p 0 (l + 2) bs) ++ ns) f ot1 op1 od1 hs1 M1 M2 M3 M4 Hvs Hst2)
      as (st3 & Hw3 & Hst3 & Hh3 & Ho3).
    { congruence. }
    { apply closed_upd_g; assumption. }
    { intros _. replace (Datatypes.S lvl - 1)%nat with lvl by lia. unfold hs1.
      rewrite getn_upd_same by (rewrite L4; exact Hl). discriminate. }
    { intros k Hk. unfold ot1, op1, od1. rewrite !getn_upd_other by lia. apply He. lia. }
    { rewrite Hpp, Hcp2. intros j' q _ Hq.
      rewrite Ho2, Hc1, count_set_other.
      - apply Hf. eapply prefix_child. exact Hq.
      - apply path_eqb_neq. intros E. subst q. destruct Hq as (r & Er). unfold p in Er. rewrite <- !app_assoc in Er.
        rewrite <- (app_nil_r par) in Er at 1. apply app_inv_head in Er. discriminate.
      - apply path_eqb_neq. eapply child_not_block. exact Hq. }
    rewrite Hpp, Hcp2 in Hw3. rewrite Hpp in Ho3. rewrite Hw3. cbn [bind fst snd].
    (* leaving the section *)
    unfold FileListener.exit_.
    replace (classify (S (sec_rule lvl))) with (RSection lvl) by (destruct lvl as [|[|[|[|k]]]]; [reflexivity..|lia]).
    cbn [bind fst snd]. rewrite push_none.
    eexists. split; [|split; [|split; [|split]]].
    - rewrite rev_app_distr, <- app_assoc. reflexivity.
    - destruct Hst3 as [Hb3 Hhd3 Hn3 (t5 & Ht3) (p5 & Hp3) (d5 & Hd3) Hpr3 Hs3].
      constructor; cbn; try assumption.
      + exists t5. rewrite Ht3, upd_app_l by (rewrite M1; lia). f_equal. unfold ot1. rewrite upd_upd. apply upd_const_same. exact E1.
      + exists p5. rewrite Hp3, upd_app_l by (rewrite M2; lia). f_equal. unfold op1. rewrite upd_upd. apply upd_const_same. exact E2.
      + exists d5. rewrite Hd3, upd_app_l by (rewrite M3; lia). f_equal. unfold od1. rewrite upd_upd. apply upd_const_same. exact E3.
    - cbn. rewrite Hh3. unfold hs1. rewrite upd_upd. apply upd_const_same. apply Hc. lia.
    - cbn. rewrite Ho3.
      + rewrite Ho2, Hc1; [apply count_set_same|].
        apply path_eqb_neq. intros E. apply Hpar_p. 
        exfalso. unfold p in E. rewrite <- app_assoc in E. rewrite <- (app_nil_r par) in E at 1. apply app_inv_head in E. discriminate.
      + intros (r & Er). unfold p in Er. rewrite <- app_assoc in Er. rewrite <- (app_nil_r par) in Er at 1.
        apply app_inv_head in Er. discriminate.
    - cbn. intros q Hq Hqp. rewrite Ho3 by exact Hq. rewrite Ho2, Hc1.
      + apply count_set_other. apply path_eqb_neq. exact Hqp.
      + apply path_eqb_neq. intros E. apply Hq. subst q. apply prefix_app.
  Qed.

  (* ---------------- document order = order of the block keys ---------------- *)
  Definition nle (a b : note) : Prop := key_leb (n_key a) (n_key b) = true.
  Definition keys_are (Q : list nat -> Prop) (l : list note) : Prop := Forall (fun n => Q (n_key n)) l.

  Lemma key_leb_refl k : key_leb k k = true.
  Proof. induction k as [|x k IH]; [reflexivity|]. cbn [key_leb]. now rewrite Nat.ltb_irrefl. Qed.
  Lemma key_leb_app p a b : key_leb (p ++ a) (p ++ b) = key_leb a b.
  Proof. induction p as [|x p IH]; [reflexivity|]. cbn [app key_leb]. now rewrite Nat.ltb_irrefl. Qed.
  Lemma key_leb_lt x y a b : (x < y)%nat -> key_leb (x :: a) (y :: b) = true.
  Proof. intros H. cbn [key_leb]. apply Nat.ltb_lt in H. now rewrite H. Qed.

  Lemma sorted_app (l1 l2 : list note) :
    StronglySorted nle l1 -> StronglySorted nle l2 -> (forall a b, In a l1 -> In b l2 -> nle a b) ->
    StronglySorted nle (l1 ++ l2).
  Proof.
    intros H1 H2 Hc. induction H1 as [|a l1 Hs IH Ha]; [exact H2|].
    cbn [app]. constructor.
    - apply IH. intros x y Hx Hy. apply Hc; [right; exact Hx|exact Hy].
    - apply Forall_app. split; [exact Ha|]. apply Forall_forall. intros b Hb. apply Hc; [left; reflexivity|exact Hb].
  Qed.
  Lemma keys_app Q l1 l2 : keys_are Q l1 -> keys_are Q l2 -> keys_are Q (l1 ++ l2).
  Proof. intros H1 H2. apply Forall_app. split; assumption. Qed.
  Lemma keys_weaken (Q Q' : list nat -> Prop) l : (forall k, Q k -> Q' k) -> keys_are Q l -> keys_are Q' l.
  Proof. intros H. apply Forall_impl. intros n. apply H. Qed.

  Lemma items_keys ot op od key l its :
    StronglySorted nle (spec_items today ot op od key l its) /\ keys_are (fun k => k = key) (spec_items today ot op od key l its).
  Proof.
    revert l. induction its as [|[it|ws] its IH]; intros l; cbn [spec_items]; [split; constructor| |apply IH].
    destruct (IH (Datatypes.S l)) as (H1 & H2). split.
    - constructor; [exact H1|]. eapply Forall_impl; [|exact H2]. intros n E. unfold nle. cbn. rewrite E. apply key_leb_refl.
    - constructor; [reflexivity|exact H2].
  Qed.

  Lemma blocks_keys ot op od parent bs : forall b0 l,
    StronglySorted nle (spec_blocks today ot op od parent b0 l bs) /\
    keys_are (fun k => exists b, (b0 <= b)%nat /\ k = parent ++ [0%nat; b]) (spec_blocks today ot op od parent b0 l bs).
  Proof.
    induction bs as [|b bs IH]; intros b0 l; cbn [spec_blocks]; [split; constructor|].
    destruct (items_keys ot op od (parent ++ [0%nat; b0]) l b) as (I1 & I2).
    destruct (IH (Datatypes.S b0) (l + Datatypes.S (length b))%nat) as (H1 & H2). split.
    - apply sorted_app; [exact I1|exact H1|].
      intros x y Hx Hy. unfold keys_are in I2, H2. rewrite Forall_forall in I2, H2.
      specialize (I2 x Hx). destruct (H2 y Hy) as (b' & Hb & Ey). cbn in I2. unfold nle. rewrite I2, Ey, key_leb_app.
      cbn [key_leb]. rewrite Nat.ltb_irrefl. destruct (Nat.ltb_spec b0 b'); [reflexivity|].
      assert (b' = b0) by lia. subst. rewrite Nat.ltb_irrefl. reflexivity.
    - apply keys_app.
      + eapply keys_weaken; [|exact I2]. intros k ->. exists b0. split; [lia|reflexivity].
      + eapply keys_weaken; [|exact H2]. intros k (b' & Hb & ->). exists b'. split; [lia|reflexivity].
  Qed.

  Definition SecKeys (s : gsec) : Prop :=
    forall lvl ot op od path l,
    StronglySorted nle (spec_sec today lvl ot op od path l s) /\
    keys_are (fun k => exists r, k = path ++ r) (spec_sec today lvl ot op od path l s).

  Lemma secs_keys ss : Forall SecKeys ss -> forall lvl ot op od parent j0 l,
    StronglySorted nle (spec_secs today lvl ot op od parent j0 l ss) /\
    keys_are (fun k => exists j r, (j0 <= j)%nat /\ k = parent ++ Datatypes.S j :: r) (spec_secs today lvl ot op od parent j0 l ss).
  Proof.
    induction 1 as [|s ss Hs _ IH]; intros lvl ot op od parent j0 l; cbn [spec_secs]; [split; constructor|].
    destruct (Hs lvl ot op od (parent ++ [Datatypes.S j0]) l) as (S1 & S2).
    destruct (IH lvl ot op od parent (Datatypes.S j0) (l + sec_lines s)%nat) as (H1 & H2). split.
    - apply sorted_app; [exact S1|exact H1|].
      intros x y Hx Hy. unfold keys_are in S2, H2. rewrite Forall_forall in S2, H2.
      destruct (S2 x Hx) as (r & Ex). destruct (H2 y Hy) as (j & r' & Hj & Ey).
      unfold nle. rewrite Ex, Ey, <- app_assoc, key_leb_app. apply key_leb_lt. lia.
    - apply keys_app.
      + eapply keys_weaken; [|exact S2]. intros k (r & ->). exists j0, r. split; [lia|]. now rewrite <- app_assoc.
      + eapply keys_weaken; [|exact H2]. intros k (j & r & Hj & ->). exists j, r. split; [lia|reflexivity].
  Qed.

  Lemma sec_keys : forall s, SecKeys s.
  Proof.
    induction s as [title bs subs IH] using gsec_ind2. unfold SecKeys. intros lvl ot op od path l.
    rewrite spec_sec_eq. cbv zeta.
    set (ot' := upd _ _ ot). set (op' := upd _ _ op). set (od' := upd _ _ od).
    destruct (blocks_keys ot' op' od' path bs 0 (l + 2)%nat) as (B1 & B2).
    destruct (secs_keys subs IH (Datatypes.S lvl) ot' op' od' path 0 (l + 2 + blocks_lines bs)%nat) as (S1 & S2). split.
    - apply sorted_app; [exact B1|exact S1|].
      intros x y Hx Hy. unfold keys_are in B2, S2. rewrite Forall_forall in B2, S2.
      destruct (B2 x Hx) as (b & _ & Ex). destruct (S2 y Hy) as (j & r & _ & Ey).
      unfold nle. rewrite Ex, Ey, key_leb_app. apply key_leb_lt. lia.
    - apply keys_app.
      + eapply keys_weaken; [|exact B2]. intros k (b & _ & ->). eexists. reflexivity.
      + eapply keys_weaken; [|exact S2]. intros k (j & r & _ & ->). eexists. reflexivity.
  Qed.

  Lemma page_sorted pg : StronglySorted nle (spec_page today pg).
  Proof.
    unfold spec_page. cbv zeta.
    set (ot := [words_tags (pg_title pg); []; []; []; []]). set (op := [words_props (pg_title pg) []; []; []; []; []]).
    set (od := [words_date today (pg_title pg) None; None; None; None; None]).
    destruct (blocks_keys ot op od [0%nat] (pg_blocks pg) 0 3) as (B1 & B2).
    destruct (secs_keys (pg_h2s pg) (proj2 (Forall_forall _ _) (fun s _ => sec_keys s)) 1 ot op od [0%nat] 0
                        (3 + blocks_lines (pg_blocks pg))%nat) as (S1 & S2).
    destruct (secs_keys (pg_h1s pg) (proj2 (Forall_forall _ _) (fun s _ => sec_keys s)) 0 ot op od [] 0
                        (3 + blocks_lines (pg_blocks pg) + secs_lines (pg_h2s pg))%nat) as (T1 & T2).
    unfold keys_are in B2, S2, T2. rewrite Forall_forall in B2, S2, T2.
    apply sorted_app; [exact B1|apply sorted_app; [exact S1|exact T1|]|].
    - intros x y Hx Hy. destruct (S2 x Hx) as (j & r & _ & Ex). destruct (T2 y Hy) as (j' & r' & _ & Ey).
      unfold nle. rewrite Ex, Ey. cbn [app]. apply key_leb_lt. lia.
    - intros x y Hx Hy. destruct (B2 x Hx) as (b & _ & Ex). apply in_app_or in Hy. destruct Hy as [Hy|Hy].
      + destruct (S2 y Hy) as (j & r & _ & Ey). unfold nle. rewrite Ex, Ey, key_leb_app. apply key_leb_lt. lia.
      + destruct (T2 y Hy) as (j & r & _ & Ey). unfold nle. rewrite Ex, Ey. cbn [app]. apply key_leb_lt. lia.
  Qed.

  Lemma isort_sorted_id (l : list note) :
    StronglySorted nle l -> isort (fun a b => key_leb (n_key a) (n_key b)) l = l.
  Proof.
    induction 1 as [|a l Hs IH Ha]; [reflexivity|]. cbn [isort]. rewrite IH.
    destruct l as [|b l]; [reflexivity|]. cbn [insert]. inversion Ha as [|? ? Hab _]; subst. unfold nle in Hab. now rewrite Hab.
  Qed.

  (* ---------------- whole pages ---------------- *)
  Definition valid_page (pg : apage) : Prop :=
    Forall valid_mword (pg_title pg) /\ Forall (Forall valid_elem) (pg_blocks pg) /\
    valid_secs 1 (pg_h2s pg) /\ valid_secs 0 (pg_h1s pg).

  Lemma upd_0 {A} (f : A -> A) x l : upd 0 f (x :: l) = f x :: l.
  Proof. reflexivity. Qed.

  Lemma empty_from_title a b c lvl :
    empty_from lvl [a; []; []; []; []] [b; []; []; []; []] [c; None; None; None; None].
  Proof.
    intros k Hk. destruct k as [|[|[|[|[|[|k]]]]]]; try lia; repeat split; reflexivity.
  Qed.
  Lemma closed_all lvl : closed_from lvl [None; None; None; None].
  Proof. intros k _. destruct k as [|[|[|[|[|k]]]]]; reflexivity. Qed.

  Lemma walk_head title ns f :
    Forall valid_mword title ->
    exists st', walk (nd "head" 1 [nd "comment" 1 [tks "HASH" "#"; tree_of_words 1 title; nl_tok]]) init_state (ns, f) =
                Ok (st', (ns, f)) /\
                sec_state st' [words_tags title; []; []; []; []] [words_props title []; []; []; []; []]
                              [words_date today title None; None; None; None; None] /\
                s_h st' = [None; None; None; None] /\ s_counts st' = [].
  Proof.
    intros Hv. unfold nl_tok, tks. unfold nd at 1. rewrite walk_node. unfold FileListener.enter at 1, FileListener.exit_ at 1. cls.
    cbn [bind walk_list]. unfold nd at 1. rewrite walk_node. unfold FileListener.enter at 1, FileListener.exit_ at 1. cls.
    cbn [bind walk_list]. tokstep. unfold tree_of_words, nd. inert.
    set (sta := init_state <| s_in_head := true |>).
    assert (Hm : meta_mode 0 sta) by (unfold meta_mode; cbn; repeat split; left; repeat split).
    rewrite (walk_words_meta 0) by assumption. cbn [bind fst snd]. tokstep.
    rewrite push_none. cbn [bind fst snd]. rewrite push_none.
    destruct (msfx_proj 0 title sta Hm) as (Mt & Mp & Md & Mo).
    destruct Mo as (O1 & O2 & O3 & O4 & O5 & O6 & O7 & O8 & O9 & O10 & O11 & O12 & O13 & O14 & O15).
    eexists. split; [reflexivity|]. split; [|split].
    - constructor; cbn.
      + unfold body_mode. cbn. rewrite <- O6, <- O9. repeat split.
      + reflexivity.
      + rewrite <- O8. reflexivity.
      + exists []. rewrite Mt. reflexivity.
      + exists []. rewrite Mp. reflexivity.
      + exists None. rewrite Md. reflexivity.
      + rewrite <- O11. reflexivity.
      + rewrite <- O12. reflexivity.
    - cbn. rewrite <- O4. reflexivity.
    - cbn. rewrite <- O13. reflexivity.
  Qed.

  Lemma walk_page pg :
    valid_page pg ->
    exists stF, walk (tree_of_page pg) init_state ([], false) = Ok (stF, (rev (spec_page today pg), false)).
  Proof.
    intros (Vt & Vb & V2 & V1). unfold tree_of_page. cbv zeta. unfold nd at 1. inert.
    destruct (walk_head (pg_title pg) [] false Vt) as (st0 & Hw0 & Hst0 & Hh0 & Hc0).
    rewrite Hw0. cbn [bind fst snd].
    set (ot := [words_tags (pg_title pg); []; []; []; []]) in *.
    set (op := [words_props (pg_title pg) []; []; []; []; []]) in *.
    set (od := [words_date today (pg_title pg) None; None; None; None; None]) in *.
    unfold nd at 1. inert. cbn [app walk_list]. unfold nl_tok at 1, tks at 1. tokstep.
    (* top-level blocks *)
    rewrite walk_list_app.
    destruct (walk_blocks_g ot op od (pg_blocks pg) 3 st0 [] false eq_refl eq_refl eq_refl Hst0 Vb)
      as (st1 & Hw1 & Hst1 & Hh1 & Hc1 & Ho1).
    assert (HP : block_parent st0 = [0%nat]) by (unfold block_parent; rewrite Hh0; reflexivity).
    rewrite HP, Hc0 in Hw1, Hc1, Ho1. cbn [count_of] in Hw1, Hc1, Ho1.
    rewrite Hw1. cbn [bind fst snd].
    rewrite Hh0 in Hh1.
    (* H2 sections before the first H1 *)
    rewrite walk_list_app.
    destruct (walk_secs (pg_h2s pg) (proj2 (Forall_forall _ _) (fun s _ => sec_ok s)) 1
                (3 + blocks_lines (pg_blocks pg))%nat st1
                (rev (spec_blocks today ot op od [0%nat] 0 3 (pg_blocks pg)) ++ []) false
                ot op od [None; None; None; None] eq_refl eq_refl eq_refl eq_refl V2 Hst1 Hh1 (closed_all 1))
      as (st2 & Hw2 & Hst2 & Hh2 & Ho2).
    { intros H. lia. }
    { apply empty_from_title. }
    { cbn [parent_of getn nth]. intros j' q _ Hq. rewrite Ho1.
      - reflexivity.
      - apply path_eqb_neq. apply (child_not_block [0%nat] j' q Hq). }
    cbn [parent_of getn nth] in Hw2, Ho2.
    assert (Hc01 : count_of [0%nat] (s_counts st1) = 0%nat) by (rewrite Ho1; reflexivity).
    rewrite Hc01 in Hw2. rewrite Hw2. cbn [bind fst snd].
    (* H1 sections *)
    destruct (walk_secs (pg_h1s pg) (proj2 (Forall_forall _ _) (fun s _ => sec_ok s)) 0
                (3 + blocks_lines (pg_blocks pg) + secs_lines (pg_h2s pg))%nat st2
                (rev (spec_secs today 1 ot op od [0%nat] 0 (3 + blocks_lines (pg_blocks pg)) (pg_h2s pg)) ++
                 rev (spec_blocks today ot op od [0%nat] 0 3 (pg_blocks pg)) ++ []) false
                ot op od [None; None; None; None] eq_refl eq_refl eq_refl eq_refl V1 Hst2 Hh2 (closed_all 0))
      as (st3 & Hw3 & Hst3 & Hh3 & Ho3).
    { intros H. lia. }
    { apply empty_from_title. }
    { cbn [parent_of]. intros j' q _ Hq. cbn [app] in Hq.
      assert (Hn0 : ~ prefix [0%nat] q) by (intros (r & Er); destruct Hq as (r' & Er'); rewrite Er in Er'; discriminate).
      rewrite Ho2 by exact Hn0. rewrite Ho1; [reflexivity|].
      apply path_eqb_neq. intros E. apply Hn0. exists [0%nat]. exact E. }
    cbn [parent_of] in Hw3.
    assert (Hc02 : count_of [] (s_counts st2) = 0%nat).
    { rewrite Ho2 by (intros (r & Er); discriminate). rewrite Ho1; reflexivity. }
    rewrite Hc02 in Hw3. rewrite Hw3. cbn [bind fst snd]. unfold tks. tokstep.
    exists st3. unfold spec_page. cbv zeta. fold ot op od.
    rewrite !rev_app_distr, !app_nil_r, <- !app_assoc. reflexivity.
  Qed.

  Theorem page_correct pg :
    valid_page pg ->
    exists secs, listen today false (tree_of_page pg) =
                 Ok {| p_has_errors := false; p_notes := spec_page today pg; p_sections := secs |}.
  Proof.
    intros V. destruct (walk_page pg V) as (stF & Hw). unfold listen.
    change (FileListener.walk today false) with walk. rewrite Hw. cbn [bind fst snd].
    exists (s_sections stF). rewrite rev_involutive, isort_sorted_id by apply page_sorted. reflexivity.
  Qed.
End Walk.

(* ---------------- a decision procedure for the hypotheses (used by the harness on every generated page) ---------------- *)
Lemma is_ok_ex {A} (r : res A) : is_ok r = true -> exists a, r = Ok a.
Proof. destruct r; try discriminate. eauto. Qed.

Lemma valid_identb_sound i : valid_identb i = true -> valid_ident i.
Proof.
  destruct i as [s|z|m z|d|m]; cbn [valid_identb valid_ident]; intros H;
    repeat (apply andb_prop in H; destruct H as [H ?]);
    repeat match goal with
           | H : negb _ = true |- _ => apply negb_true_iff in H
           | H : is_ok _ = true |- _ => apply is_ok_ex in H
           end; repeat match goal with |- _ /\ _ => split end; try assumption.
  all: unfold is_short_date_spec; apply andb_true_intro; split; assumption.
Qed.
Lemma valid_itemb_sound it : valid_itemb it = true -> valid_item it.
Proof.
  unfold valid_itemb, valid_item, no_scan. intros H.
  repeat (apply andb_prop in H; destruct H as [H ?]).
  repeat match goal with H : negb _ = true |- _ => apply negb_true_iff in H end.
  split; [apply valid_identb_sound; assumption|]. split; [unfold after_mod_ok; assumption|]. split; [|split; assumption].
  destruct (strip (words_text (item_words it))); [discriminate|congruence].
Qed.
Lemma valid_mwordb_sound w : valid_mwordb w = true -> valid_mword w.
Proof. destruct w; cbn; intros H; try exact I. apply is_ok_ex in H. exact H. Qed.
Lemma forallb_Forall {A} (p : A -> bool) (P : A -> Prop) l :
  (forall x, p x = true -> P x) -> forallb p l = true -> Forall P l.
Proof.
  intros H. induction l as [|x l IH]; intros E; [constructor|].
  cbn in E. apply andb_prop in E. destruct E. constructor; auto.
Qed.
Lemma valid_elemb_sound e : valid_elemb e = true -> valid_elem e.
Proof. destruct e as [it|ws]; [apply valid_itemb_sound|intros _; exact I]. Qed.
Lemma valid_blocksb_sound bs : forallb (forallb valid_elemb) bs = true -> Forall (Forall valid_elem) bs.
Proof. apply forallb_Forall. intros b. apply forallb_Forall. apply valid_elemb_sound. Qed.

Lemma valid_secb_sound : forall s lvl, valid_secb lvl s = true -> valid_sec lvl s.
Proof.
  induction s as [title bs subs IH] using gsec_ind2. intros lvl H. apply valid_sec_eq.
  cbn [valid_secb] in H. repeat (apply andb_prop in H; destruct H as [H ?]).
  split; [apply Nat.ltb_lt; assumption|]. split; [eapply forallb_Forall; [apply valid_mwordb_sound|assumption]|].
  split; [apply valid_blocksb_sound; assumption|].
  match goal with H : _ subs = true |- _ => revert H end.
  induction IH as [|s' r Hs _ IHr]; intros E; [exact I|].
  apply andb_prop in E. destruct E as [E1 E2]. split; [apply Hs; exact E1|apply IHr; exact E2].
Qed.
Lemma valid_secsb_sound ss : forall lvl, valid_secsb lvl ss = true -> valid_secs lvl ss.
Proof.
  induction ss as [|s r IH]; intros lvl H; [exact I|]. cbn in H. apply andb_prop in H. destruct H.
  split; [apply valid_secb_sound; assumption|apply IH; assumption].
Qed.
Lemma valid_pageb_sound pg : valid_pageb pg = true -> valid_page pg.
Proof.
  unfold valid_pageb, valid_page. intros H. repeat (apply andb_prop in H; destruct H as [H ?]).
  split; [eapply forallb_Forall; [apply valid_mwordb_sound|assumption]|].
  split; [apply valid_blocksb_sound; assumption|]. split; apply valid_secsb_sound; assumption.
Qed.


(* ---------------- what the property-level reading says (read off the definitions) ---------------- *)
Lemma spec_note_reading today ot op od key line it :
  let n := spec_note today ot op od key line it in
  let ws := item_words it in
  n_todo n = match i_kind it with
             | None => None
             | Some k => Some (match i_prio it with Some p => upper p | None => default_priority end, [kind_char k])
             end /\
  n_zid n = ident_zid (i_ident it) /\ n_body n = strip (words_text ws) /\ n_line n = line /\
  n_areas n = tagvals "areas" (concat ot ++ words_tags ws) /\
  n_contexts n = tagvals "contexts" (concat ot ++ words_tags ws) /\
  n_people n = tagvals "people" (concat ot ++ words_tags ws) /\
  n_projects n = tagvals "projects" (concat ot ++ words_tags ws) /\
  n_links n = tagvals "links" (concat ot ++ words_tags ws) /\
  n_props n = fold_left dict_union (op ++ [words_props ws []]) [] /\
  n_create n = match ident_create today (i_ident it) with Some d => d | None => outer_date today od end.
Proof. cbv zeta. repeat split. Qed.

Lemma outer_date_inner today od d : outer_date today (od ++ [Some d]) = d.
Proof. unfold outer_date. now rewrite fold_left_app. Qed.
Lemma outer_date_skip today od : outer_date today (od ++ [None]) = outer_date today od.
Proof. unfold outer_date. now rewrite fold_left_app. Qed.
Lemma outer_date_none today n : outer_date today (repeat None n) = today.
Proof. unfold outer_date. induction n as [|n IH]; [reflexivity|exact IH]. Qed.

(* a section's title metadata is in scope for its own blocks and its sub-sections, and only there:
   the sibling sections that follow are read under the context the section itself was read under *)
Lemma section_scope today lvl ot op od path l title bs subs :
  spec_sec today lvl ot op od path l (GSec title bs subs) =
  let ot' := upd (Datatypes.S lvl) (fun _ => words_tags title) ot in
  let op' := upd (Datatypes.S lvl) (fun _ => words_props title []) op in
  let od' := upd (Datatypes.S lvl) (fun _ => words_date today title None) od in
  spec_blocks today ot' op' od' path 0 (l + 2) bs ++
  spec_secs today (Datatypes.S lvl) ot' op' od' path 0 (l + 2 + blocks_lines bs) subs.
Proof. apply spec_sec_eq. Qed.
Lemma siblings_scope today lvl ot op od parent j l s r :
  spec_secs today lvl ot op od parent j l (s :: r) =
  spec_sec today lvl ot op od (parent ++ [Datatypes.S j]) l s ++
  spec_secs today lvl ot op od parent (Datatypes.S j) (l + sec_lines s) r.
Proof. reflexivity. Qed.
