From Zorg Require Import Base.PyStr Base.Res Proofs.PyStrFacts Model.Move.

(* ---- delete: exactly the note's lines, when its first line is the first one mentioning " zid " ---- *)
Lemma find_line_spec pat : forall ls i s, find_line pat ls i = Some s ->
  exists k, s = i + k /\ k < length ls /\ contains pat (nth k ls []) = true /\
            forall j, j < k -> contains pat (nth j ls []) = false.
Proof.
  induction ls as [|l r IH]; intros i s H; simpl in H; [discriminate|].
  destruct (contains pat l) eqn:E.
  - inversion H; subst. exists 0. repeat split; [lia|simpl; lia|exact E|intros j Hj; lia].
  - destruct (IH _ _ H) as (k & -> & Hk & Hc & Hb). exists (Datatypes.S k).
    repeat split; [lia|simpl; lia|exact Hc|].
    intros [|j] Hj; [exact E|]. simpl. apply Hb. lia.
Qed.

Theorem delete_exact zid body ls out :
  del_lines zid body ls = Some out ->
  exists s, out = firstn s ls ++ skipn (s + length (split_on nlc body)) ls /\
            contains (S " " ++ zid ++ S " ") (nth s ls []) = true /\
            forall j, j < s -> contains (S " " ++ zid ++ S " ") (nth j ls []) = false.
Proof.
  unfold del_lines. intros H.
  destruct (find_line _ ls 0) as [s|] eqn:E; [|discriminate]. inversion H; subst.
  destruct (find_line_spec _ _ _ _ E) as (k & -> & Hk & Hc & Hb). exists k. simpl. auto.
Qed.

(* every other line of the source is kept, in order *)
Theorem delete_keeps_others zid body ls out : del_lines zid body ls = Some out ->
  exists s k, out = firstn s ls ++ skipn (s + k) ls /\ k = length (split_on nlc body).
Proof. intros H. destruct (delete_exact _ _ _ _ H) as (s & -> & _). eauto. Qed.

(* ---- add: the note text replaces one line, which is blank when the page ends with a newline ---- *)
Lemma ins_go_spec : forall ls i in_note start,
  ins_go ls i in_note start = start \/
  (i <= ins_go ls i in_note start /\ ins_go ls i in_note start - i < length ls /\
   is_blank_line (nth (ins_go ls i in_note start - i) ls []) = true).
Proof.
  induction ls as [|l rest IH]; intros i in_note start; simpl; [now left|].
  destruct ((in_note || starts_item l) && is_blank_line l) eqn:E.
  - apply andb_prop in E. destruct E as [_ Eb].
    destruct (IH (Datatypes.S i) false i) as [H|(H1 & H2 & H3)].
    + right. rewrite H. replace (i - i) with 0 by lia. simpl. repeat split; [lia|lia|exact Eb].
    + right. repeat split; [lia|simpl; lia|].
      replace (ins_go rest (Datatypes.S i) false i - i) with (Datatypes.S (ins_go rest (Datatypes.S i) false i - Datatypes.S i)) by lia.
      exact H3.
  - destruct (IH (Datatypes.S i) (in_note || starts_item l) start) as [H|(H1 & H2 & H3)].
    + now left.
    + right. repeat split; [lia|simpl; lia|].
      replace (ins_go rest (Datatypes.S i) (in_note || starts_item l) start - i)
        with (Datatypes.S (ins_go rest (Datatypes.S i) (in_note || starts_item l) start - Datatypes.S i)) by lia.
      exact H3.
Qed.

Lemma nth_last_default (ls : list str) : nth (length ls - 1) ls [] = last ls [].
Proof.
  induction ls as [|x r IH]; [reflexivity|]. destruct r as [|y r']; [reflexivity|].
  simpl length in *. replace (Datatypes.S (Datatypes.S (length r')) - 1) with (Datatypes.S (length r')) by lia.
  simpl nth. replace (length r') with (Datatypes.S (length r') - 1) by lia. exact IH.
Qed.

Theorem add_overwrites_only_a_blank_line (ls : list str) :
  last ls [] = [] -> ls <> [] ->
  ins_index ls < length ls /\ is_blank_line (nth (ins_index ls) ls []) = true.
Proof.
  intros Hlast Hne. unfold ins_index.
  destruct (ins_go_spec ls 0 false (length ls - 1)) as [H|(H1 & H2 & H3)].
  - rewrite H. split; [destruct ls; [congruence|simpl; lia]|].
    rewrite nth_last_default, Hlast. reflexivity.
  - rewrite Nat.sub_0_r in H2, H3. auto.
Qed.

Theorem add_shape text ls :
  add_lines text ls = firstn (ins_index ls) ls ++ split_on nlc text ++ skipn (Datatypes.S (ins_index ls)) ls.
Proof. reflexivity. Qed.

(* REFUTED clauses *)
Lemma add_overwrites_last_line_refuted :
  add_note (S "- moved" ++ [nlc]) (S "# C header only") = S "- moved" ++ [nlc].
Proof. vm_compute. reflexivity. Qed.
Lemma delete_wrong_lines_refuted :
  delete_note (S "240101#05") (S "240101#05 the note")
    (S "# t" ++ [nlc] ++ [nlc] ++ S "- 240101#01 see 240101#05 there" ++ [nlc] ++ S "- 240101#05 the note" ++ [nlc]) =
  Some (S "# t" ++ [nlc] ++ [nlc] ++ S "- 240101#05 the note" ++ [nlc]).
Proof. vm_compute. reflexivity. Qed.
