From Zorg Require Import Base.PyStr Base.Res Proofs.PyStrFacts Model.Move.

(* ---- delete: exactly the note's lines, when its first line is the first one mentioning " zid " ---- *)
Lemma find_line_spec pat : forall ls i s, find_line pat ls i = Some s ->
  exists k, s = i + k /\ k < length ls /\ contains pat (nth k ls []) = true /\
            forall j, j < k -> contains pat (nth j ls []) = false.
Proof.
  induction ls as [|l r IH]; intros i s H; simpl in H; [discriminate|].
  destruct (contains pat l) eqn:E.
  - inversion H; subst. exists 0. repeat split; [lia|simpl; lia|exact E|intros j Hj; lia].
  - destruct (IH _ _ H) as (k & -> & Hk & Hc & Hb). exists (Datatypes.S k).
    repeat split; [lia|simpl; lia|exact Hc|].
    intros [|j] Hj; [exact E|]. simpl. apply Hb. lia.
Qed.

Theorem delete_exact zid body ls out :
  del_lines zid body ls = Some out ->
  exists s, out = firstn s ls ++ skipn (s + length (split_on nlc body)) ls /\
            contains (S " " ++ zid ++ S " ") (nth s ls []) = true /\
            forall j, j < s -> contains (S " " ++ zid ++ S " ") (nth j ls []) = false.
Proof.
  unfold del_lines. intros H.
  destruct (find_line _ ls 0) as [s|] eqn:E; [|discriminate]. inversion H; subst.
  destruct (find_line_spec _ _ _ _ E) as (k & -> & Hk & Hc & Hb). exists k. simpl. auto.
Qed.

(* every other line of the source is kept, in order *)
Theorem delete_keeps_others zid body ls out : del_lines zid body ls = Some out ->
  exists s k, out = firstn s ls ++ skipn (s + k) ls /\ k = length (split_on nlc body).
Proof. intros H. destruct (delete_exact _ _ _ _ H) as (s & -> & _). eauto. Qed.

(* ---- add: the note text replaces one line, which is blank when the page ends with a newline ---- *)
Lemma ins_go_spec : forall ls i in_note start,
  ins_go ls i in_note start = start \/
  (i <= ins_go ls i in_note start /\ ins_go ls i in_note start - i < length ls /\
   is_blank_line (nth (ins_go ls i in_note start - i) ls []) = true).
Proof.
  induction ls as [|l rest IH]; intros i in_note start; simpl; [now left|].
  destruct ((in_note || starts_item l) && is_blank_line l) eqn:E.
  - apply andb_prop in E. destruct E as [_ Eb].
    destruct (IH (Datatypes.S i) false i) as [H|(H1 & H2 & H3)].
    + right. rewrite H. replace (i - i) with 0 by lia. simpl. repeat split; [lia|lia|exact Eb].
    + right. repeat split; [lia|simpl; lia|].
      replace (ins_go rest (Datatypes.S i) false i - i) with (Datatypes.S (ins_go rest (Datatypes.S i) false i - Datatypes.S i)) by lia.
      exact H3.
  - destruct (IH (Datatypes.S i) (in_note || starts_item l) start) as [H|(H1 & H2 & H3)].
    + now left.
    + right. repeat split; [lia|simpl; lia|].
      replace (ins_go rest (Datatypes.S i) (in_note || starts_item l) start - i)
        with (Datatypes.S (ins_go rest (Datatypes.S i) (in_note || starts_item l) start - Datatypes.S i)) by lia.
      exact H3.
Qed.

Lemma nth_last_default (ls : list str) : nth (length ls - 1) ls [] = last ls [].
Proof.
  induction ls as [|x r IH]; [reflexivity|]. destruct r as [|y r']; [reflexivity|].
  simpl length in *. replace (Datatypes.S (Datatypes.S (length r')) - 1) with (Datatypes.S (length r')) by lia.
  simpl nth. replace (length r') with (Datatypes.S (length r') - 1) by lia. exact IH.
Qed.

Theorem add_overwrites_only_a_blank_line (ls : list str) :
  last ls [] = [] -> ls <> [] ->
  ins_index ls < length ls /\ is_blank_line (nth (ins_index ls) ls []) = true.
Proof.
  intros Hlast Hne. unfold ins_index.
  destruct (ins_go_spec ls 0 false (length ls - 1)) as [H|(H1 & H2 & H3)].
  - rewrite H. split; [destruct ls; [congruence|simpl; lia]|].
    rewrite nth_last_default, Hlast. reflexivity.
  - rewrite Nat.sub_0_r in H2, H3. auto.
Qed.

Theorem add_shape text ls :
  add_lines text ls = firstn (ins_index ls) ls ++ split_on nlc text ++ skipn (Datatypes.S (ins_index ls)) ls.
Proof. reflexivity. Qed.

(* REFUTED clauses *)
Lemma add_overwrites_last_line_refuted :
  add_note (S "- moved" ++ [nlc]) (S "# C header only") = S "- moved" ++ [nlc].
Proof. vm_compute. reflexivity. Qed.
Lemma delete_wrong_lines_refuted :
  delete_note (S "240101#05") (S "240101#05 the note")
    (S "# t" ++ [nlc] ++ [nlc] ++ S "- 240101#01 see 240101#05 there" ++ [nlc] ++ S "- 240101#05 the note" ++ [nlc]) =
  Some (S "# t" ++ [nlc] ++ [nlc] ++ S "- 240101#05 the note" ++ [nlc]).
Proof. vm_compute. reflexivity. Qed.

(* ---- add: WHERE the note goes. The lines of a page split into paragraphs at blank lines; the note is written in
   place of the blank line that ends the LAST paragraph holding an item, i.e. directly below that paragraph, and
   the blank line is written back after it - every other line keeps its place. ---- *)
Lemma ins_go_no_items : forall B i s,
  forallb (fun l => negb (starts_item l)) B = true -> ins_go B i false s = s.
Proof.
  induction B as [|l r IH]; intros i s H; [reflexivity|].
  cbn [forallb] in H. apply andb_prop in H. destruct H as [Hl Hr]. apply negb_true_iff in Hl.
  cbn [ins_go]. rewrite Hl. cbn [orb andb]. apply IH. exact Hr.
Qed.
Lemma ins_go_paragraph : forall P rest i n s,
  forallb (fun l => negb (is_blank_line l)) P = true ->
  ins_go (P ++ rest) i n s = ins_go rest (i + length P) (n || existsb starts_item P) s.
Proof.
  induction P as [|l r IH]; intros rest i n s H.
  - cbn [app length existsb]. now rewrite Nat.add_0_r, orb_false_r.
  - cbn [forallb] in H. apply andb_prop in H. destruct H as [Hl Hr]. apply negb_true_iff in Hl.
    cbn [app ins_go]. rewrite Hl, andb_false_r. rewrite IH by exact Hr.
    cbn [length existsb]. rewrite orb_assoc. f_equal. lia.
Qed.
Lemma ins_go_prefix : forall A R i n s, exists n' s', ins_go (A ++ R) i n s = ins_go R (i + length A) n' s'.
Proof.
  induction A as [|l r IH]; intros R i n s.
  - exists n, s. cbn [app length]. now rewrite Nat.add_0_r.
  - cbn [app ins_go length]. destruct ((n || starts_item l) && is_blank_line l).
    + destruct (IH R (Datatypes.S i) false i) as (n' & s' & E). exists n', s'. rewrite E. f_equal. lia.
    + destruct (IH R (Datatypes.S i) (n || starts_item l) s) as (n' & s' & E). exists n', s'. rewrite E. f_equal. lia.
Qed.

Theorem ins_index_last_item_paragraph A P b B :
  forallb (fun l => negb (is_blank_line l)) P = true -> existsb starts_item P = true ->
  is_blank_line b = true -> forallb (fun l => negb (starts_item l)) B = true ->
  ins_index (A ++ P ++ b :: B) = length A + length P.
Proof.
  intros HP Hit Hb HB. unfold ins_index.
  destruct (ins_go_prefix A (P ++ b :: B) 0 false (length (A ++ P ++ b :: B) - 1)) as (n' & s' & E).
  rewrite E. rewrite ins_go_paragraph by exact HP. rewrite Hit, orb_true_r.
  cbn [ins_go]. rewrite Hb. cbn [orb andb]. rewrite ins_go_no_items by exact HB. lia.
Qed.

Lemma split_line_nl text : forallb (fun c => negb (ceqb c nlc)) text = true -> split_on nlc (text ++ [nlc]) = [text; []].
Proof.
  induction text as [|c t IH]; intros H.
  - cbn. now rewrite ceqb_refl.
  - cbn [forallb] in H. apply andb_prop in H. destruct H as [Hc Ht]. apply negb_true_iff in Hc.
    cbn [app split_on]. rewrite Hc, (IH Ht). reflexivity.
Qed.

Theorem add_below_last_item_paragraph text A P b B :
  forallb (fun c => negb (ceqb c nlc)) text = true ->
  forallb (fun l => negb (is_blank_line l)) P = true -> existsb starts_item P = true ->
  is_blank_line b = true -> forallb (fun l => negb (starts_item l)) B = true ->
  add_lines (text ++ [nlc]) (A ++ P ++ b :: B) = A ++ P ++ text :: [] :: B.
Proof.
  intros Ht HP Hit Hb HB. unfold add_lines. rewrite (ins_index_last_item_paragraph A P b B) by assumption.
  rewrite split_line_nl by exact Ht.
  replace (A ++ P ++ b :: B) with ((A ++ P) ++ b :: B) by (now rewrite <- app_assoc).
  rewrite <- app_length.
  rewrite firstn_app, firstn_all, Nat.sub_diag. cbn [firstn]. rewrite app_nil_r.
  replace (Datatypes.S (length (A ++ P))) with (length (A ++ P) + 1) by lia.
  rewrite skipn_app, skipn_all2 by lia.
  replace (length (A ++ P) + 1 - length (A ++ P)) with 1 by lia. cbn [skipn app].
  now rewrite <- app_assoc.
Qed.

(* a page without any item: the note goes in place of the last line (blank when the page ends with a newline) *)
Theorem ins_index_no_items ls :
  forallb (fun l => negb (starts_item l)) ls = true -> ins_index ls = length ls - 1.
Proof. intros H. unfold ins_index. now apply ins_go_no_items. Qed.

(* ---- delete: the block of lines that is removed, for every page ---- *)
Lemma find_line_first pat : forall pre l rest i,
  forallb (fun x => negb (contains pat x)) pre = true -> contains pat l = true ->
  find_line pat (pre ++ l :: rest) i = Some (i + length pre).
Proof.
  induction pre as [|x pre IH]; intros l rest i Hp Hl.
  - cbn [app find_line length]. rewrite Hl. f_equal. lia.
  - cbn [forallb] in Hp. apply andb_prop in Hp. destruct Hp as [Hx Hr]. apply negb_true_iff in Hx.
    cbn [app find_line length]. rewrite Hx. rewrite IH by assumption. f_equal. lia.
Qed.

(* pre: the lines above the note, none of which mentions its ZID; blk: as many lines as the note's body has, the first
   of them mentioning the ZID (the note's own lines); post: the rest. Exactly blk is removed. *)
Theorem delete_exactly_the_notes_lines zid body pre l blk post :
  forallb (fun x => negb (contains (S " " ++ zid ++ S " ") x)) pre = true ->
  contains (S " " ++ zid ++ S " ") l = true ->
  length (l :: blk) = length (split_on nlc body) ->
  del_lines zid body (pre ++ (l :: blk) ++ post) = Some (pre ++ post).
Proof.
  intros Hp Hl Hlen. unfold del_lines. cbn [app].
  rewrite find_line_first by assumption. cbn [Nat.add]. rewrite <- Hlen.
  f_equal. f_equal.
  - rewrite firstn_app, firstn_all, Nat.sub_diag. cbn [firstn]. now rewrite app_nil_r.
  - assert (E : pre ++ l :: blk ++ post = (pre ++ (l :: blk)) ++ post) by (now rewrite <- app_assoc).
    rewrite E. replace (length pre + length (l :: blk)) with (length (pre ++ (l :: blk))) by (now rewrite app_length).
    rewrite skipn_app, skipn_all, Nat.sub_diag. reflexivity.
Qed.
