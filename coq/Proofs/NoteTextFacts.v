From Zorg Require Import Base.PyStr Base.Res Proofs.PyStrFacts Model.NoteText.

Lemma dropwhile_idem {A} (p : A -> bool) l : dropwhile p (dropwhile p l) = dropwhile p l.
Proof.
  induction l as [|x l IH]; simpl; auto. destruct (p x) eqn:E; auto. simpl. now rewrite E.
Qed.

Lemma dropwhile_head_false {A} (p : A -> bool) l x r : dropwhile p l = x :: r -> p x = false.
Proof.
  induction l as [|y l IH]; simpl; [discriminate|]. destruct (p y) eqn:E; auto.
  intros H. inversion H; subst. exact E.
Qed.

Lemma dropwhile_id_head {A} (p : A -> bool) x r : p x = false -> dropwhile p (x :: r) = x :: r.
Proof. intros H. simpl. now rewrite H. Qed.

(* rstrip of an lstripped string is still lstripped *)
Lemma lstrip_rstrip_lstrip s : lstrip (rstrip (lstrip s)) = rstrip (lstrip s).
Proof.
  unfold lstrip, rstrip.
  destruct (dropwhile is_space s) as [|x r] eqn:E; [reflexivity|].
  pose proof (dropwhile_head_false _ _ _ _ E) as Hx.
  remember (rev (dropwhile is_space (rev (x :: r)))) as t eqn:Et.
  (* t starts with x unless empty; it is empty only if everything is space, impossible as x is not *)
  assert (Hin : exists r', t = x :: r').
  { subst t. simpl rev at 2.
    assert (G : forall l, exists m, dropwhile is_space (l ++ [x]) = m ++ [x]).
    { intros l. induction l as [|y l IHl]; simpl.
      - rewrite Hx. exists []. reflexivity.
      - destruct (is_space y); [exact IHl|]. exists (y :: l). reflexivity. }
    destruct (G (rev r)) as (m & Hm). rewrite Hm. rewrite rev_unit. eauto. }
  destruct Hin as (r' & ->). now apply dropwhile_id_head.
Qed.

Lemma rstrip_idem s : rstrip (rstrip s) = rstrip s.
Proof. unfold rstrip. now rewrite rev_involutive, dropwhile_idem. Qed.

Theorem strip_idem s : strip (strip s) = strip s.
Proof. unfold strip. rewrite lstrip_rstrip_lstrip. apply rstrip_idem. Qed.

(* the text form depends on the body only up to outer whitespace *)
Theorem to_string_strip todo body : to_string todo (strip body) = to_string todo body.
Proof. unfold to_string. now rewrite strip_idem. Qed.

(* the priority is written exactly for todos that are not done or cancelled *)
Theorem to_string_open p st body : is_done st = false ->
  to_string (Some (p, st)) body = st ++ S " " ++ p ++ S " " ++ strip body ++ [ascii_of_nat 10].
Proof. intros H. unfold to_string, prio_part, kind_char. rewrite H. now rewrite <- !app_assoc. Qed.
Theorem to_string_done p st body : is_done st = true ->
  to_string (Some (p, st)) body = st ++ S " " ++ strip body ++ [ascii_of_nat 10].
Proof. intros H. unfold to_string, prio_part, kind_char. rewrite H. reflexivity. Qed.
Theorem to_string_note body : to_string None body = S "- " ++ strip body ++ [ascii_of_nat 10].
Proof. reflexivity. Qed.
