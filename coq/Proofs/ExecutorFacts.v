From Coq Require Import Permutation Sorted.
From Zorg Require Import Base.PyStr Base.Res Proofs.PyStrFacts Proofs.SortFacts Model.NoteText Model.Executor.

(* ---- groupby: runs of equal keys ---- *)
Lemma groupby_concat {A} (k : A -> str) l : concat (map snd (groupby k l)) = l.
Proof.
  induction l as [|x r IH]; simpl; [reflexivity|].
  destruct (groupby k r) as [|[lbl g] gs] eqn:E; simpl in *.
  - now rewrite <- IH.
  - destruct (eqb_str (k x) lbl); simpl; now rewrite <- IH.
Qed.

Lemma groupby_labels {A} (k : A -> str) l :
  Forall (fun lg => snd lg <> [] /\ Forall (fun x => k x = fst lg) (snd lg)) (groupby k l).
Proof.
  induction l as [|x r IH]; simpl; [constructor|].
  destruct (groupby k r) as [|[lbl g] gs] eqn:E.
  - constructor; [|constructor]. split; [discriminate|]. constructor; [reflexivity|constructor].
  - inversion IH as [|? ? [Hne Hall] Hrest]; subst. simpl in *.
    destruct (eqb_str (k x) lbl) eqn:Ek.
    + apply eqb_str_eq in Ek. constructor; [|exact Hrest]. split; [discriminate|]. now constructor.
    + constructor; [|now constructor]. split; [discriminate|]. constructor; [reflexivity|constructor].
Qed.

(* adjacent groups carry different labels *)
Fixpoint adj_distinct (l : list str) : Prop :=
  match l with
  | a :: ((b :: _) as r) => a <> b /\ adj_distinct r
  | _ => True
  end.
Lemma groupby_adjacent {A} (k : A -> str) l : adj_distinct (map fst (groupby k l)).
Proof.
  induction l as [|x r IH]; simpl; [exact I|].
  destruct (groupby k r) as [|[lbl g] gs] eqn:E; simpl in *; [exact I|].
  destruct (eqb_str (k x) lbl) eqn:Ek; simpl.
  - exact IH.
  - split; [|exact IH]. now apply eqb_str_neq.
Qed.

(* on a sorted list the group labels are strictly increasing: sorted and distinct *)
Lemma groupby_sorted_strict {A} (k : A -> str) l :
  sorted (fun a b => str_leb (k a) (k b)) l ->
  StronglySorted (fun a b => str_ltb a b = true) (map fst (groupby k l)).
Proof.
  induction l as [|x r IH]; simpl; intros Hs; [constructor|].
  apply StronglySorted_inv in Hs. destruct Hs as [Hr Hx]. specialize (IH Hr).
  pose proof (groupby_labels k r) as Hl. pose proof (groupby_concat k r) as Hc.
  destruct (groupby k r) as [|[lbl g] gs] eqn:E; simpl in *.
  - repeat constructor.
  - destruct (eqb_str (k x) lbl) eqn:Ek; simpl; [exact IH|].
    constructor; [exact IH|].
    (* k x <= every key in r, and every label is a key of r, and k x <> lbl; labels after lbl are > lbl *)
    assert (Hle : forall lg, In lg ((lbl, g) :: gs) -> str_leb (k x) (fst lg) = true).
    { intros lg Hin. rewrite Forall_forall in Hl. destruct (Hl lg Hin) as [Hne Hall].
      destruct (snd lg) as [|y ys] eqn:Ey; [congruence|].
      apply Forall_inv in Hall.
      assert (Hy : In y r).
      { rewrite <- Hc. change (g ++ concat (map snd gs)) with (concat (map snd ((lbl, g) :: gs))).
        apply (proj2 (in_concat _ _)). exists (snd lg). split; [now apply (in_map snd)|rewrite Ey; now left]. }
      rewrite Forall_forall in Hx. specialize (Hx y Hy). now rewrite <- Hall. }
    assert (Hlt0 : str_ltb (k x) lbl = true).
    { specialize (Hle (lbl, g) (or_introl eq_refl)). simpl in Hle.
      unfold str_leb in Hle. apply negb_true_iff in Hle.
      destruct (str_trichotomy (k x) lbl) as [H|[H|H]]; [exact H| |congruence].
      apply eqb_str_neq in Ek. contradiction. }
    constructor; [exact Hlt0|].
    inversion IH as [|? ? _ Hf]; subst.
    eapply Forall_impl; [|exact Hf]. intros z Hz. eapply str_ltb_trans; eauto.
Qed.

(* ---- the grouping tree ---- *)
Fixpoint leaves (t : ngroup) : list xnote :=
  match t with
  | Leaf ns => ns
  | Groups gs => (fix go (l : list (str * ngroup)) : list xnote :=
                    match l with [] => [] | (_, g) :: r => leaves g ++ go r end) gs
  end.

Lemma leaves_groups gs : leaves (Groups gs) = concat (map (fun lg => leaves (snd lg)) gs).
Proof. induction gs as [|[l g] r IH]; simpl in *; [reflexivity|]. now rewrite IH. Qed.

Lemma sort_by_perm {A} (k : A -> str) l : Permutation (sort_by k l) l.
Proof. apply isort_perm. Qed.
Lemma sort_by_sorted {A} (k : A -> str) l : sorted (fun a b => str_leb (k a) (k b)) (sort_by k l).
Proof.
  apply isort_sorted.
  - intros a b. apply str_leb_total.
  - intros a b c. apply str_leb_trans.
Qed.

(* each selected note occurs exactly once under the leaves *)
Theorem group_by_each_once : forall gs ns, Permutation (leaves (group_by gs ns)) ns.
Proof.
  induction gs as [|g rest IH]; intros ns; simpl; [reflexivity|].
  set (G := groupby (gkeyf g) (sort_by (gkeyf g) ns)).
  change (Permutation (leaves (Groups (map (fun lg => (fst lg, group_by rest (snd lg))) G))) ns).
  rewrite leaves_groups, map_map. simpl.
  transitivity (concat (map snd G)).
  - clearbody G. induction G as [|[l x] r IHr]; simpl; [reflexivity|].
    apply Permutation_app; [apply IH|exact IHr].
  - unfold G. rewrite groupby_concat. apply sort_by_perm.
Qed.

Lemma order_by_leaves os : forall t, Permutation (leaves (order_by os t)) (leaves t).
Proof.
  fix IH 1. intros [ns|gs]; simpl.
  - apply sort_by_perm.
  - induction gs as [|[l g] r IHr]; simpl; [reflexivity|]. apply Permutation_app; [apply IH|exact IHr].
Qed.

Theorem execute_each_once gs os ns : Permutation (leaves (order_by os (group_by gs ns))) ns.
Proof. rewrite order_by_leaves. apply group_by_each_once. Qed.

(* sibling group labels are sorted and distinct; every note sits under its own key *)
Theorem group_by_labels g rest ns :
  exists G, group_by (g :: rest) ns = Groups G /\
    StronglySorted (fun a b => str_ltb a b = true) (map fst G) /\
    Forall (fun lg => exists part, snd lg = group_by rest part /\ part <> [] /\
                                   Forall (fun n => gkeyf g n = fst lg) part) G.
Proof.
  simpl. eexists. split; [reflexivity|]. split.
  - rewrite map_map. simpl.
    change (map (fun x => fst x) (groupby (gkeyf g) (sort_by (gkeyf g) ns))) with
      (map fst (groupby (gkeyf g) (sort_by (gkeyf g) ns))).
    apply groupby_sorted_strict. apply sort_by_sorted.
  - rewrite Forall_map. eapply Forall_impl; [|apply groupby_labels].
    intros [l part] [Hne Hall]. simpl in *. exists part. auto.
Qed.

(* within a group, notes are sorted by the joined ORDER BY key *)
Theorem order_by_leaf_sorted os ns :
  exists ns', order_by os (Leaf ns) = Leaf ns' /\ Permutation ns' ns /\
    sorted (fun a b => str_leb (order_key os a) (order_key os b)) ns'.
Proof. simpl. eexists. split; [reflexivity|]. split; [apply sort_by_perm|apply sort_by_sorted]. Qed.

(* count(x) is the number of entries selecting x yields for the same group *)
Theorem count_is_length s alpha nl lvl ns :
  render (Count s) alpha nl lvl (Leaf ns) = Ok (str_of_nat (length (selector s alpha ns)) ++ nl1 ++ nl1) /\
  render (Sel s) alpha nl lvl (Leaf ns) = Ok (join nl1 (selector s alpha ns) ++ nl1 ++ nl1).
Proof. split; reflexivity. Qed.

(* tag / key / value / link selections list distinct values *)
Lemma uniq_go_nodup : forall l seen, NoDup (uniq_go seen l) /\ forall x, In x (uniq_go seen l) -> ~ In x seen.
Proof.
  induction l as [|x l IH]; intros seen; simpl; [split; [constructor|intros ? []]|].
  destruct (mem_str x seen) eqn:E.
  - apply IH.
  - destruct (IH (x :: seen)) as [Hnd Hnot]. split.
    + constructor; [|exact Hnd]. intros Hin. apply (Hnot x Hin). now left.
    + intros y [<-|Hy].
      * intros Hin. apply mem_str_In in Hin. congruence.
      * intros Hin. apply (Hnot y Hy). now right.
Qed.
Theorem uniq_nodup l : NoDup (uniq l).
Proof. apply uniq_go_nodup. Qed.

Lemma uniq_go_in : forall l seen x, In x (uniq_go seen l) <-> (In x l /\ ~ In x seen).
Proof.
  induction l as [|y l IH]; intros seen x; simpl; [tauto|].
  destruct (mem_str y seen) eqn:E.
  - rewrite IH. apply mem_str_In in E. split.
    + intros [H1 H2]. auto.
    + intros [[->|H1] H2]; [contradiction|auto].
  - simpl. rewrite IH. simpl.
    assert (Hn : ~ In y seen) by (intros H; apply mem_str_In in H; congruence).
    split.
    + intros [<-|[H1 H2]]; [auto|]. split; [auto|]. intros H. apply H2. now right.
    + intros [[<-|H1] H2]; [now left|].
      destruct (eqb_str x y) eqn:Exy; [apply eqb_str_eq in Exy; now left|].
      right. split; [exact H1|]. intros [<-|H]; [rewrite eqb_str_refl in Exy; discriminate|contradiction].
Qed.
Theorem uniq_same_values l x : In x (uniq l) <-> In x l.
Proof. unfold uniq. rewrite uniq_go_in. simpl. tauto. Qed.

(* REFUTED: O none compares "path::line" as text, so line 10 sorts before line 3 *)
Definition mk_plain (path : string) (line : nat) (body : string) : xnote :=
  {| x_path := S path; x_line := line; x_body := S body; x_todo := None; x_create := S "20240101"; x_modify := S "20240101";
     x_areas := []; x_contexts := []; x_people := []; x_projects := []; x_links := []; x_props := []; x_section := [] |}.
Lemma order_none_refuted :
  execute (Sel SNote) [] [ONone] [mk_plain "a.zo" 3 "third line"; mk_plain "a.zo" 10 "tenth line"] =
  Ok (S "- tenth line" ++ nl1 ++ S "- third line").
Proof. vm_compute. reflexivity. Qed.
